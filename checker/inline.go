package main

import (
	"encoding/json"
	"fmt"
	"go/ast"
	"go/constant"
	"go/token"
	"go/types"
	"os"
	"path/filepath"
	"slices"
	"sort"
	"strings"

	"golang.org/x/tools/go/ssa"
	"golang.org/x/tools/go/types/typeutil"
)

// New functions are analysed as if inlined into their callers.
//
// The rules were written and reviewed against the functions listed in
// tables/functions.json. A function of gleece that is not in that list did not exist
// then: no rule names it, no table was reviewed with it in mind. Treating it as an
// opaque call would make every function-anchored rule blind to (or alarmed by) what was
// merely moved into it, so every primitive below looks through it instead:
//   - instruction and call enumeration of a function covers the new functions it calls;
//   - a backward slice descends into the results of a new callee and maps its parameters
//     to the arguments of its call sites;
//   - the branch facts that dominate an instruction inside a new function include the
//     facts common to all of its call sites;
//   - path rules accept a call of a new function for a call of X when the new function
//     itself satisfies the rule for X (summaries, memoised);
//   - inventories attribute a site inside a new function to the reviewed function(s) it is
//     reached from.
// On the reviewed tree there is no new function and all of this is inert.

// curWorld is the world the free-standing SSA helpers consult.
var curWorld *World

type baselineFns struct {
	loaded   bool
	fns      map[string]bool
	sigs     map[string]string   // reviewed function -> package|receiver|exported|signature
	prints   map[string][]string // reviewed function -> what its body mentions (callees, string literals)
	inl      map[string]bool     // reviewed function was a single `return <expr>` (read as that expression)
	types    map[string]bool     // named types of the reviewed tree ("pkg.Type")
	partials map[string]bool     // partial names of the reviewed templates
	fields   map[string][]string // fields ("name type", in order) of the reviewed named structs
}

func (w *World) loadBaseline(verifDir string) error {
	b, err := os.ReadFile(filepath.Join(verifDir, "tables", "functions.json"))
	if err != nil {
		return err
	}
	var doc struct {
		Functions map[string]struct {
			Sig string   `json:"sig"`
			Fp  []string `json:"fp"`
			Inl bool     `json:"inl,omitempty"`
		} `json:"functions"`
		Types  []string            `json:"types"`
		Fields map[string][]string `json:"fields"`
	}
	if err := json.Unmarshal(b, &doc); err != nil {
		return err
	}
	w.base.fns = map[string]bool{}
	w.base.sigs = map[string]string{}
	w.base.prints = map[string][]string{}
	w.base.inl = map[string]bool{}
	// the partial names of the reviewed templates (a partial under a new name is read as part of
	// the templates that invoke it, see inlineNewPartials)
	w.base.partials = map[string]bool{}
	if pb, err := os.ReadFile(filepath.Join(verifDir, "tables", "partials.json")); err == nil {
		var pd struct {
			Groups map[string]any `json:"partial_token_groups"`
		}
		if json.Unmarshal(pb, &pd) == nil {
			for k := range pd.Groups {
				w.base.partials[k] = true
			}
		}
	}
	w.base.fields = doc.Fields
	w.base.types = map[string]bool{}
	for _, t := range doc.Types {
		w.base.types[t] = true
	}
	for f, d := range doc.Functions {
		if d.Inl {
			w.base.inl[f] = true
		}
		w.base.fns[f] = true
		w.base.sigs[f] = d.Sig
		w.base.prints[f] = d.Fp
	}
	if len(w.base.fns) < 500 {
		return fmt.Errorf("tables/functions.json lists only %d functions", len(w.base.fns))
	}
	w.base.loaded = true
	return nil
}

func (w *World) dumpFunctions() []byte {
	ks := map[string]any{}
	for k, fi := range w.Funcs {
		ent := map[string]any{"sig": funcSigKey(fi), "fp": bodyPrint(fi)}
		if singleReturn(fi) {
			ent["inl"] = true
		}
		ks[k] = ent
	}
	var typeNames []string
	for _, p := range w.Pkgs {
		if !isAnalysedPkg(p.PkgPath) {
			continue
		}
		sc := p.Types.Scope()
		for _, nm := range sc.Names() {
			if _, ok := sc.Lookup(nm).(*types.TypeName); ok {
				typeNames = append(typeNames, short(p.PkgPath)+"."+nm)
			}
		}
	}
	sort.Strings(typeNames)
	b, _ := json.MarshalIndent(map[string]any{
		"types":     typeNames,
		"fields":    w.structFieldsTable(),
		"_comment":  "functions of gleece on the tree the rules were reviewed against (with package|receiver|exported|signature); a function not listed here is analysed as if inlined into its callers, unless it is a listed function under a new name (checker/inline.go)",
		"functions": ks,
	}, "", " ")
	return append(b, '\n')
}

// isNewTypeName: "pkg.Type" names a type the reviewed tree did not have (a tuple of values a
// refactoring passes around together, a frame of an explicit stack): its fields are not state
// or inputs of their own - what is stored into them is.
func (w *World) isNewTypeName(qual string) bool {
	if w == nil || !w.base.loaded || len(w.base.types) == 0 || w.base.types[qual] {
		return false
	}
	// only a type of gleece itself can be new (go/ast.GenDecl is not in the table either)
	if w.analysedShort == nil {
		w.analysedShort = map[string]bool{}
		for _, p := range w.Pkgs {
			if isAnalysedPkg(p.PkgPath) {
				w.analysedShort[short(p.PkgPath)] = true
			}
		}
	}
	i := strings.LastIndex(qual, ".")
	return i > 0 && w.analysedShort[qual[:i]]
}

// sigChanged: a reviewed function whose parameter or result types are no longer the reviewed
// ones. What the tables say about its parameters was said about the old ones, so its
// parameters are read as what its callers pass (as for a new function).
func (w *World) sigChanged(key string) bool {
	if w == nil || !w.base.loaded || !w.base.fns[key] {
		return false
	}
	fi := w.Funcs[key]
	if fi == nil || fi.Obj == nil {
		return false
	}
	return w.base.sigs[key] != funcSigKey(fi)
}

// isNewName: key names a declared gleece function that the reviewed tree did not have.
func (w *World) isNewName(key string) bool {
	if w == nil || !w.base.loaded {
		return false
	}
	fi := w.Funcs[key]
	if fi == nil || fi.SSA == nil || fi.SSA.Blocks == nil {
		return false
	}
	return !w.base.fns[key]
}

func (w *World) isNewFn(fn *ssa.Function) bool {
	if w == nil || fn == nil || !w.base.loaded {
		return false
	}
	if r, ok := w.newMemo[fn]; ok {
		return r
	}
	r := w.isNewName(fnReal(fn))
	if w.newMemo == nil {
		w.newMemo = map[*ssa.Function]bool{}
	}
	w.newMemo[fn] = r
	return r
}

// namedOf: the declared function a (possibly anonymous, possibly instantiated) function
// belongs to.
func namedOf(fn *ssa.Function) *ssa.Function {
	fn = enclosingNamed(fn)
	if fn.Origin() != nil {
		fn = fn.Origin()
	}
	return fn
}

// newCallee: the new function a call statically invokes, or nil.
func (w *World) newCallee(c ssa.CallInstruction) *ssa.Function {
	if w == nil || !w.base.loaded {
		return nil
	}
	callee := c.Common().StaticCallee()
	if callee == nil || callee.Blocks == nil {
		return nil
	}
	if callee.Parent() != nil {
		return nil // a closure called directly: part of its enclosing function already
	}
	if !w.isNewFn(callee) {
		return nil
	}
	return callee
}

// callSitesOfNew: the static call sites of a new function (by declared function).
func (w *World) callSitesOfNew(fn *ssa.Function) []ssa.CallInstruction {
	if w.newSites == nil {
		w.newSites = map[*ssa.Function][]ssa.CallInstruction{}
		w.newRefs = map[*ssa.Function][]*ssa.Function{}
		for _, f := range w.SSAFuncs {
			for _, b := range f.Blocks {
				for _, ins := range b.Instrs {
					if c, ok := ins.(ssa.CallInstruction); ok {
						if callee := w.newCallee(c); callee != nil {
							k := namedOf(callee)
							w.newSites[k] = append(w.newSites[k], c)
						}
					}
					for _, op := range ins.Operands(nil) {
						if g, ok := (*op).(*ssa.Function); ok && g.Parent() == nil && g.Blocks != nil && w.isNewFn(g) {
							if c, isCall := ins.(ssa.CallInstruction); isCall && c.Common().StaticCallee() == g {
								continue
							}
							w.newRefs[namedOf(g)] = append(w.newRefs[namedOf(g)], f)
						}
					}
				}
			}
		}
	}
	return w.newSites[namedOf(fn)]
}

// hostsOf: the reviewed (baseline) functions from which fn is reached through calls of new
// functions only; fn itself when it is not new. Sorted short names.
func (w *World) hostsOf(fn *ssa.Function) []string {
	seen := map[*ssa.Function]bool{}
	out := map[string]bool{}
	var walk func(f *ssa.Function, depth int)
	walk = func(f *ssa.Function, depth int) {
		f = namedOf(f)
		if seen[f] || depth > 8 {
			return
		}
		seen[f] = true
		if !w.isNewFn(f) {
			out[fnReal(f)] = true
			return
		}
		sites := w.callSitesOfNew(f)
		refs := w.newRefs[f]
		if len(sites) == 0 && len(refs) == 0 {
			out[fnReal(f)] = true // unreferenced new function: stands for itself
			return
		}
		for _, c := range sites {
			walk(c.Parent(), depth+1)
		}
		for _, g := range refs {
			walk(g, depth+1) // used as a value there (callback, registration)
		}
	}
	walk(fn, 0)
	var ks []string
	for k := range out {
		ks = append(ks, k)
	}
	sort.Strings(ks)
	return ks
}

// hostName: the single reviewed function a site in fn is attributed to; for a new function
// reached from several reviewed functions, their names joined by "|".
func (w *World) hostName(fn *ssa.Function) string {
	if w == nil || !w.isNewFn(fn) {
		return fnReal(fn)
	}
	return strings.Join(w.hostsOf(fn), "|")
}

// hostKey: same, by function key (AST-level callers).
func (w *World) hostKey(key string) string {
	if w == nil || !w.isNewName(key) {
		return key
	}
	return w.hostName(w.Funcs[key].SSA)
}

// hostCallsIn: the call instructions in fn itself (closures included) through which ins,
// an instruction somewhere in fn's region, is reached; ins itself when it is in fn.
func (w *World) hostCallsIn(fn *ssa.Function, ins ssa.Instruction) []ssa.Instruction {
	if namedOf(ins.Parent()) == namedOf(fn) {
		return []ssa.Instruction{ins}
	}
	var out []ssa.Instruction
	seen := map[*ssa.Function]bool{}
	var up func(f *ssa.Function, depth int)
	up = func(f *ssa.Function, depth int) {
		f = namedOf(f)
		if seen[f] || depth > 8 || !w.isNewFn(f) {
			return
		}
		seen[f] = true
		for _, c := range w.callSitesOfNew(f) {
			if namedOf(c.Parent()) == namedOf(fn) {
				out = append(out, c)
			} else {
				up(c.Parent(), depth+1)
			}
		}
	}
	up(ins.Parent(), 0)
	return out
}

// regionFns: fn, then the new functions it (transitively) calls.
func (w *World) regionFns(fn *ssa.Function) []*ssa.Function {
	out := []*ssa.Function{fn}
	if w == nil || !w.base.loaded {
		return out
	}
	seen := map[*ssa.Function]bool{namedOf(fn): true}
	for i := 0; i < len(out); i++ {
		allInstrsLocal(out[i], true, func(_ *ssa.Function, _ *ssa.BasicBlock, _ int, ins ssa.Instruction) {
			if c, ok := ins.(ssa.CallInstruction); ok {
				if callee := w.newCallee(c); callee != nil && !seen[namedOf(callee)] {
					seen[namedOf(callee)] = true
					out = append(out, callee)
				}
			}
			// a new function used as a value (registered as a callback, stored, passed on)
			for _, op := range ins.Operands(nil) {
				if f, ok := (*op).(*ssa.Function); ok && f.Parent() == nil && f.Blocks != nil && w.isNewFn(f) && !seen[namedOf(f)] {
					seen[namedOf(f)] = true
					out = append(out, f)
				}
			}
		})
	}
	return out
}

// ---------------------------------------------------------------------------
// summaries for path rules

type sumKey struct {
	fn   *ssa.Function
	kind string
	what string
	idx  int
}

func (w *World) summary(k sumKey, compute func() bool) bool {
	if w.sumMemo == nil {
		w.sumMemo = map[sumKey]int{}
	}
	switch w.sumMemo[k] {
	case 1:
		return true
	case 2, 3: // 3: in progress (recursion): answer no
		return false
	}
	w.sumMemo[k] = 3
	r := compute()
	if r {
		w.sumMemo[k] = 1
	} else {
		w.sumMemo[k] = 2
	}
	return r
}

// newHelpersCalledIn: the local calls in fn of new functions.
func (w *World) newHelperCalls(fn *ssa.Function) []ssa.CallInstruction {
	var out []ssa.CallInstruction
	if w == nil || !w.base.loaded {
		return out
	}
	allInstrsLocal(fn, false, func(_ *ssa.Function, _ *ssa.BasicBlock, _ int, ins ssa.Instruction) {
		if c, ok := ins.(ssa.CallInstruction); ok && w.newCallee(c) != nil {
			out = append(out, c)
		}
	})
	return out
}

// regionHasCall: some function of fn's region calls a callee matching pred.
func (w *World) regionHasCall(fn *ssa.Function, pred func(string) bool) bool {
	for _, f := range w.regionFns(fn) {
		if len(callsInLocal(f, true, pred)) > 0 {
			return true
		}
	}
	return false
}

// ---------------------------------------------------------------------------
// AST level

type astCallSite struct {
	Fi   *FuncInfo
	Call *ast.CallExpr
}

type newParam struct {
	Key      string
	Idx      int // -1: receiver
	Variadic bool
}

func (w *World) buildASTNewIndex() {
	if w.astSites != nil {
		return
	}
	w.astSites = map[string][]astCallSite{}
	w.newParams = map[types.Object]newParam{}
	if !w.base.loaded {
		return
	}
	keys := make([]string, 0, len(w.Funcs))
	for k := range w.Funcs {
		keys = append(keys, k)
	}
	sort.Strings(keys)
	for _, k := range keys {
		fi := w.Funcs[k]
		if w.isNewName(k) || w.sigChanged(k) {
			info := fi.Pkg.TypesInfo
			if fi.Decl.Recv != nil {
				for _, f := range fi.Decl.Recv.List {
					for _, n := range f.Names {
						if o := info.Defs[n]; o != nil {
							w.newParams[o] = newParam{Key: k, Idx: -1}
						}
					}
				}
			}
			// a reviewed function whose signature changed keeps the parameters it had (what the
			// tables say about them still holds): only parameters of a type the reviewed
			// signature did not mention are read as what the callers pass
			// (a type the new signature mentions more often than the reviewed one did is
			// ambiguous - all parameters of that type are read through the callers)
			var oldTypes map[string]int
			newTypes := map[string]int{}
			if !w.isNewName(k) {
				oldTypes = sigParamTypes(w.base.sigs[k])
				if sg, ok := fi.Obj.Type().(*types.Signature); ok {
					for i := 0; i < sg.Params().Len(); i++ {
						newTypes[short(types.TypeString(sg.Params().At(i).Type(), nil))]++
					}
				}
			}
			i := 0
			for _, f := range fi.Decl.Type.Params.List {
				if len(f.Names) == 0 {
					i++
				}
				_, isVariadic := f.Type.(*ast.Ellipsis)
				for _, n := range f.Names {
					if o := info.Defs[n]; o != nil {
						if ts := short(types.TypeString(o.Type(), nil)); oldTypes == nil || oldTypes[ts] == 0 || newTypes[ts] > oldTypes[ts] {
							w.newParams[o] = newParam{Key: k, Idx: i, Variadic: isVariadic}
						}
					}
					i++
				}
			}
		}
		if fi.Decl.Body == nil {
			continue
		}
		ast.Inspect(fi.Decl.Body, func(n ast.Node) bool {
			if c, ok := n.(*ast.CallExpr); ok {
				if name := calleeOfCall(fi.Pkg.TypesInfo, c); name != "" && (w.isNewName(name) || w.sigChanged(name)) {
					w.astSites[name] = append(w.astSites[name], astCallSite{fi, c})
				}
			}
			return true
		})
	}
}

// astRegion: fi, then the new functions its body (transitively) calls.
func (w *World) astRegion(fi *FuncInfo) []*FuncInfo {
	out := []*FuncInfo{fi}
	if !w.base.loaded {
		return out
	}
	seen := map[string]bool{fi.Key: true}
	for i := 0; i < len(out); i++ {
		cur := out[i]
		if cur.Decl.Body == nil {
			continue
		}
		ast.Inspect(cur.Decl.Body, func(n ast.Node) bool {
			switch x := n.(type) {
			case *ast.CallExpr:
				if name := calleeOfCall(cur.Pkg.TypesInfo, x); name != "" && !seen[name] && w.isNewName(name) {
					seen[name] = true
					out = append(out, w.Funcs[name])
				}
			case *ast.Ident:
				// a new function used as a value (registered as a callback, stored, passed on)
				if f, ok := cur.Pkg.TypesInfo.Uses[x].(*types.Func); ok {
					if name := shortFuncName(f); !seen[name] && w.isNewName(name) {
						seen[name] = true
						out = append(out, w.Funcs[name])
					}
				}
			}
			return true
		})
	}
	return out
}

// ownerOf: the function whose declaration contains node n - fi itself, or a new function.
func (w *World) ownerOf(fi *FuncInfo, n ast.Node) *FuncInfo {
	if n == nil || (n.Pos() >= fi.Decl.Pos() && n.End() <= fi.Decl.End()) || !w.base.loaded {
		return fi
	}
	for k, f := range w.Funcs {
		if w.isNewName(k) && n.Pos() >= f.Decl.Pos() && n.End() <= f.Decl.End() {
			return f
		}
	}
	return fi
}

// argsBoundTo: the argument expressions (with the function they are written in) that the
// call sites of a new function bind to one of its parameters.
func (w *World) argsBoundTo(o types.Object) ([]astCallSite, []ast.Expr, bool) {
	w.buildASTNewIndex()
	np, ok := w.newParams[o]
	if !ok {
		return nil, nil, false
	}
	var sites []astCallSite
	var exprs []ast.Expr
	for _, s := range w.sitesForHost(w.astSites[np.Key]) {
		if np.Idx < 0 {
			if se, ok := s.Call.Fun.(*ast.SelectorExpr); ok {
				sites = append(sites, s)
				exprs = append(exprs, se.X)
			}
			continue
		}
		if np.Variadic && !s.Call.Ellipsis.IsValid() {
			// `...T`: every argument from this position on (none at all: the parameter is an empty list there)
			for _, a := range s.Call.Args[min(np.Idx, len(s.Call.Args)):] {
				sites = append(sites, s)
				exprs = append(exprs, a)
			}
			continue
		}
		if np.Idx < len(s.Call.Args) {
			sites = append(sites, s)
			exprs = append(exprs, s.Call.Args[np.Idx])
		}
	}
	if np.Variadic {
		return sites, exprs, len(w.sitesForHost(w.astSites[np.Key])) > 0
	}
	return sites, exprs, len(sites) > 0
}

// Context of a look-through. A new helper shared by several reviewed functions, or called
// several times by one, is analysed once per use: while its results are looked through from a
// call, its parameters stand for the arguments of that call (astCtx); while a construct inside
// it is judged on behalf of one reviewed function (curHost), they stand for the arguments of
// the calls made from that function's region.
type astFrame struct {
	Site   astCallSite
	Callee string
}

func (w *World) astCtxIndex(callee string) int {
	for i := len(w.astCtx) - 1; i >= 0; i-- {
		if w.astCtx[i].Callee == callee {
			return i
		}
	}
	return -1
}

func argOfSite(s astCallSite, idx int) ast.Expr {
	if idx < 0 {
		if se, ok := s.Call.Fun.(*ast.SelectorExpr); ok {
			return se.X
		}
		return nil
	}
	if idx < len(s.Call.Args) {
		return s.Call.Args[idx]
	}
	return nil
}

// withHost runs f while constructs inside new functions are judged on behalf of `host`.
func (w *World) withHost(host string, f func()) {
	saved := w.curHost
	w.curHost = host
	defer func() { w.curHost = saved }()
	f()
}

// sitesForHost: the call sites that lie in the current host's region (all, without a host
// or when none does).
func (w *World) sitesForHost(sites []astCallSite) []astCallSite {
	if w.curHost == "" || len(sites) < 2 {
		return sites
	}
	var out []astCallSite
	for _, s := range sites {
		if w.inHostRegion(s.Fi.Key) {
			out = append(out, s)
		}
	}
	if len(out) == 0 {
		return sites
	}
	return out
}

func (w *World) inHostRegion(fnKey string) bool {
	if fnKey == w.curHost {
		return true
	}
	if !w.isNewName(fnKey) {
		return false
	}
	for _, h := range hostParts(w.hostKey(fnKey)) {
		if h == w.curHost {
			return true
		}
	}
	return false
}

// siteWeight: how many call sites of the reviewed tree a call stands for. A call written in
// a new helper stands for one per call of that helper (the calls it was extracted from).
func (w *World) siteWeight(c ssa.CallInstruction) int { return w.fnWeight(c.Parent(), 0) }

func (w *World) fnWeight(fn *ssa.Function, depth int) int {
	if depth > 5 || !w.isNewFn(fn) {
		return 1
	}
	n := 0
	for _, s := range w.callSitesOfNew(fn) {
		n += w.fnWeight(s.Parent(), depth+1)
	}
	if n == 0 {
		return 1
	}
	return n
}

// boundExprs: the expressions e stands for - itself, or, when e is a parameter of a new
// function, the arguments its call sites pass (transitively).
type boundExpr struct {
	Fi   *FuncInfo
	Expr ast.Expr
}

func (w *World) boundExprs(fi *FuncInfo, e ast.Expr, depth int) []boundExpr {
	if id, ok := ast.Unparen(e).(*ast.Ident); ok && depth < 6 {
		if o := fi.Pkg.TypesInfo.Uses[id]; o != nil {
			if sites, exprs, ok := w.argsBoundTo(o); ok && len(w.defsOf(fi).defs[o]) == 0 {
				var out []boundExpr
				for i, s := range sites {
					out = append(out, w.boundExprs(s.Fi, exprs[i], depth+1)...)
				}
				return out
			}
		}
	}
	return []boundExpr{{fi, e}}
}

// resultExprs: the expressions a function returns as result idx (all results if idx < 0);
// for bare returns of named results, the result identifiers themselves.
func resultExprs(fi *FuncInfo, idx int) []ast.Expr {
	var out []ast.Expr
	if fi.Decl.Body == nil {
		return out
	}
	var named []*ast.Ident
	if fi.Decl.Type.Results != nil {
		for _, f := range fi.Decl.Type.Results.List {
			named = append(named, f.Names...)
		}
	}
	ast.Inspect(fi.Decl.Body, func(n ast.Node) bool {
		if _, ok := n.(*ast.FuncLit); ok {
			return false
		}
		ret, ok := n.(*ast.ReturnStmt)
		if !ok {
			return true
		}
		switch {
		case len(ret.Results) == 0:
			for i, id := range named {
				if idx < 0 || i == idx {
					out = append(out, id)
				}
			}
		case len(ret.Results) == 1 && idx > 0:
			out = append(out, ret.Results[0]) // return f(): a tuple handed on
		default:
			for i, e := range ret.Results {
				if idx < 0 || i == idx {
					out = append(out, e)
				}
			}
		}
		return true
	})
	return out
}

// hostParts: the reviewed functions named by an attribution ("A" or "A|B").
func hostParts(name string) []string { return strings.Split(name, "|") }

// allHostsIn: every reviewed function an attribution names is in set.
func allHostsIn(set map[string]bool, name string) bool {
	for _, p := range hostParts(name) {
		if !set[p] {
			return false
		}
	}
	return true
}

// ---------------------------------------------------------------------------
// Known decision inputs of a function (tables/condatoms.json)
//
// For every function of the reviewed tree: the fields and calls its branch conditions
// read. A conditional skip or early exit that is not in the reviewed inventories is still
// accepted when everything it decides on is among these inputs of the reviewed function it
// is attributed to: the function already branched on exactly this, the branch was
// restructured (guard clause instead of nesting, helper extracted). A skip that decides
// on something the function never looked at is new behaviour.

func condAtomsOfExpr(a *Atoms) []string {
	var out []string
	for f := range a.Fields {
		out = append(out, f)
	}
	for cl := range a.Calls {
		cl = normCallName(strings.TrimPrefix(cl, "inlined:"))
		if strings.HasPrefix(cl, "builtin.") || strings.HasPrefix(cl, "conv:") || isPlumbingCall(cl) {
			continue
		}
		out = append(out, "call:"+cl)
	}
	for l := range a.Lits {
		if strings.HasPrefix(l, "\"") && len(l) > 2 {
			out = append(out, "lit:"+l)
		}
		// numbers a value is compared with are thresholds: a new threshold is a new decision
		if len(l) > 0 && (l[0] >= '0' && l[0] <= '9' || l[0] == '-') {
			out = append(out, "lit:"+l)
		}
	}
	for id := range a.Idents {
		if strings.HasPrefix(id, "global:") {
			out = append(out, id)
		}
		if strings.HasPrefix(id, "const:") && id != "const:.true" && id != "const:.false" && id != "const:.iota" {
			out = append(out, id)
		}
		if strings.HasPrefix(id, "<") {
			out = append(out, "input:"+id) // a parameter / receiver / result of that type
		}
	}
	sort.Strings(out)
	return out
}

func (w *World) condAtomsOfFunc(fi *FuncInfo) []string {
	set := map[string]bool{}
	if fi.Decl.Body == nil {
		return nil
	}
	for _, e := range branchConds(fi) {
		for _, k := range condAtomsOfExpr(w.exprAtomsDeep(fi, e)) {
			set[k] = true
		}
	}
	return keys(set)
}

func (w *World) dumpCondAtoms() []byte {
	out := map[string][]string{}
	sets := map[string][][]string{}
	for k, fi := range w.Funcs {
		if a := w.condAtomsOfFunc(fi); len(a) > 0 {
			out[k] = a
		}
		if fi.Decl.Body == nil {
			continue
		}
		seen := map[string]bool{}
		for _, e := range branchConds(fi) {
			as := condAtomsOfExpr(w.exprAtomsDeep(fi, e))
			if len(as) == 0 || seen[strings.Join(as, "\x00")] {
				continue
			}
			seen[strings.Join(as, "\x00")] = true
			sets[k] = append(sets[k], as)
		}
		sort.Slice(sets[k], func(i, j int) bool { return strings.Join(sets[k][i], ",") < strings.Join(sets[k][j], ",") })
	}
	b, _ := json.MarshalIndent(map[string]any{
		"_comment":   "per function of the reviewed tree: the fields and calls its branch conditions read (cond_atoms: all of them; cond_sets: per branch condition) (checker/inline.go)",
		"cond_atoms": out,
		"cond_sets":  sets,
	}, "", " ")
	return append(b, '\n')
}

// restatesReviewedBranches: what the condition decides on is exactly what one reviewed branch
// condition of the function decides on, or the union of several (conditions merged, split,
// inverted, turned from a guard around the work into a skip before it). A condition on a
// different combination - also a weaker one that drops a conjunct - is a new decision.
func (w *World) restatesReviewedBranches(verifDir, host string, a *Atoms) bool {
	w.loadCondAtoms(verifDir)
	want := map[string]bool{}
	for _, x := range condAtomsOfExpr(a) {
		want[x] = true
	}
	if len(want) == 0 {
		return false
	}
	for _, h := range hostParts(host) {
		hosts := []string{h}
		if hfi := w.Funcs[h]; hfi != nil {
			for _, g := range w.vanishedFns() {
				if w.absorbedInto(g, hfi) {
					hosts = append(hosts, g)
				}
			}
		}
		cover := map[string]bool{}
		for _, hh := range hosts {
			for _, set := range w.condSets[hh] {
				sub := true
				for _, x := range set {
					if !want[x] {
						sub = false
						break
					}
				}
				if sub {
					for _, x := range set {
						cover[x] = true
					}
				}
			}
		}
		if len(cover) != len(want) {
			return false
		}
	}
	return true
}

func (w *World) loadCondAtoms(verifDir string) {
	if w.condAtoms != nil {
		return
	}
	w.condAtoms = map[string]map[string]bool{}
	b, err := os.ReadFile(filepath.Join(verifDir, "tables", "condatoms.json"))
	if err != nil {
		return
	}
	var doc struct {
		C map[string][]string   `json:"cond_atoms"`
		S map[string][][]string `json:"cond_sets"`
	}
	if json.Unmarshal(b, &doc) != nil {
		return
	}
	w.condSets = doc.S
	for k, as := range doc.C {
		m := map[string]bool{}
		for _, a := range as {
			m[a] = true
		}
		w.condAtoms[k] = m
	}
}

// decidesOnKnownInputs: every field/call the condition reads is a known decision input of
// the reviewed function(s) `host` (and there is at least one).
func (w *World) decidesOnKnownInputs(verifDir, host string, a *Atoms) bool {
	as := condAtomsOfExpr(a)
	return len(as) > 0 && len(w.unknownInputs(verifDir, host, a)) == 0
}

// unknownInputs: the decision inputs of a that the reviewed function(s) never branched on.
func (w *World) unknownInputs(verifDir, host string, a *Atoms) []string {
	w.loadCondAtoms(verifDir)
	set := map[string]bool{}
	for _, h := range hostParts(host) {
		known := w.condAtoms[h]
		// reviewed helpers that were inlined into h brought their own decisions with them
		var absorbed []map[string]bool
		if hfi := w.Funcs[h]; hfi != nil {
			for _, g := range w.vanishedFns() {
				if w.condAtoms[g] != nil && w.absorbedInto(g, hfi) {
					absorbed = append(absorbed, w.condAtoms[g])
				}
			}
		}
		for _, x := range condAtomsOfExpr(a) {
			ok := known != nil && known[x]
			for _, m := range absorbed {
				if m[x] {
					ok = true
				}
			}
			// a field that is only the way to a struct whose fields the reviewed function
			// already consulted (`v.context` on the way to `context.ArbitrationProvider`) carries
			// no decision of its own
			if !ok && known != nil && w.isPathToKnown(x, known) {
				ok = true
			}
			if !ok {
				set[x] = true
			}
		}
	}
	return keys(set)
}

// vanishedFns: reviewed functions that no longer exist (and were not renamed).
func (w *World) vanishedFns() []string {
	if w.vanished != nil {
		return w.vanished
	}
	w.vanished = []string{}
	for k := range w.base.fns {
		if w.Funcs[k] == nil {
			w.vanished = append(w.vanished, k)
		}
	}
	sort.Strings(w.vanished)
	return w.vanished
}

// hostPos: where, inside fi's own declaration, node n takes effect: n's own position when
// it is written in fi, otherwise the position of the call in fi that (through new
// functions) leads to it. NoPos if it is not reached from fi.
func (w *World) hostPos(fi *FuncInfo, n ast.Node) token.Pos {
	return w.hostPosRec(fi, n, 0)
}

func (w *World) hostPosRec(fi *FuncInfo, n ast.Node, depth int) token.Pos {
	if n.Pos() >= fi.Decl.Pos() && n.End() <= fi.Decl.End() {
		return n.Pos()
	}
	if depth > 6 {
		return token.NoPos
	}
	w.buildASTNewIndex()
	owner := w.ownerOf(fi, n)
	if owner == fi {
		return token.NoPos
	}
	for _, s := range w.astSites[owner.Key] {
		if p := w.hostPosRec(fi, s.Call, depth+1); p.IsValid() {
			return p
		}
	}
	return token.NoPos
}

// hostPosOfInstr: the same for an SSA instruction.
func (w *World) hostPosOfInstr(fi *FuncInfo, ins ssa.Instruction) token.Pos {
	for _, h := range w.hostCallsIn(fi.SSA, ins) {
		if h.Pos().IsValid() {
			return h.Pos()
		}
	}
	return ins.Pos()
}

// originValues: the values v can be, looking through type changes, conversions, phis, the
// results of new functions and their parameters (bound to call-site arguments). The leaves
// are constants, calls of reviewed functions (or extracts of them), loads, parameters of
// reviewed functions, ...
func (w *World) originValues(v ssa.Value) []ssa.Value {
	var out []ssa.Value
	seen := map[ssa.Value]bool{}
	var walk func(v ssa.Value, depth int)
	walk = func(v ssa.Value, depth int) {
		if v == nil || seen[v] || depth > 40 {
			return
		}
		seen[v] = true
		switch x := v.(type) {
		case *ssa.ChangeType:
			walk(x.X, depth+1)
		case *ssa.Convert:
			walk(x.X, depth+1)
		case *ssa.Phi:
			for _, e := range x.Edges {
				walk(e, depth+1)
			}
		case *ssa.Parameter:
			if x.Parent().Parent() == nil && w.isNewFn(x.Parent()) {
				idx := -1
				for i, q := range x.Parent().Params {
					if q == x {
						idx = i
					}
				}
				if sites := w.callSitesOfNew(x.Parent()); idx >= 0 && len(sites) > 0 {
					for _, c := range sites {
						if args := c.Common().Args; idx < len(args) {
							walk(args[idx], depth+1)
						}
					}
					return
				}
			}
			out = append(out, v)
		case *ssa.Extract:
			if call, ok := x.Tuple.(*ssa.Call); ok {
				if callee := w.newCallee(call); callee != nil {
					for _, ex := range exitsOf(callee) {
						if ex.Ret == nil || x.Index >= len(ex.Ret.Results) {
							continue
						}
						rv := unspill(ex.Ret.Results[x.Index], ex.Block)
						if k, isConst := rv.(*ssa.Const); isConst && ex.Kind == exitFailure && x.Index != errResultIndex(callee) && isZeroConst(k) {
							continue // `return <zero>, err`: no value is handed out on a failure
						}
						walk(rv, depth+1)
					}
					return
				}
			}
			out = append(out, v)
		case *ssa.Call:
			if callee := w.newCallee(x); callee != nil {
				for _, b := range callee.Blocks {
					if ret, ok := b.Instrs[len(b.Instrs)-1].(*ssa.Return); ok && len(ret.Results) == 1 {
						walk(unspill(ret.Results[0], b), depth+1)
					}
				}
				return
			}
			out = append(out, v)
		default:
			out = append(out, v)
		}
	}
	walk(v, 0)
	return out
}

// isPlumbingCall: standard-library calls that only move a collection around (keys of a map,
// a sorted or cloned copy, an iterator): they decide nothing about an element.
func isPlumbingCall(name string) bool {
	for _, p := range []string{"builtin.append", "builtin.make", "builtin.copy", "builtin.new", "common.MapKeys", "common.MapValues", "maps.Keys", "maps.Values", "maps.All", "slices.Sorted", "slices.Collect", "slices.Clone", "slices.Values", "slices.All", "slices.Contains", "slices.Index", "slices.ContainsFunc", "slices.IndexFunc", "slices.Backward", "func:"} {
		if strings.HasPrefix(name, p) {
			return true
		}
	}
	return false
}

func isZeroConst(k *ssa.Const) bool {
	if k.IsNil() || k.Value == nil {
		return true
	}
	switch k.Value.Kind() {
	case constant.String:
		return constant.StringVal(k.Value) == ""
	case constant.Int:
		return constant.Sign(k.Value) == 0
	case constant.Bool:
		return !constant.BoolVal(k.Value)
	}
	return false
}

// predicateAnswerOnlyVia: every way for function h to return result idx == pol either
// passes a branch edge that `legit` accepts, or returns a value whose being pol is itself
// a fact `legit` accepts. (Used to look through new boolean helper functions in path rules.)
func (w *World) predicateAnswerOnlyVia(h *ssa.Function, idx int, pol bool, legit func(cnd ssa.Value, pol bool) bool) bool {
	avoid := map[edge]bool{}
	for _, b := range h.Blocks {
		if len(b.Instrs) == 0 {
			continue
		}
		ifi, ok := b.Instrs[len(b.Instrs)-1].(*ssa.If)
		if !ok || len(b.Succs) != 2 {
			continue
		}
		for i, s := range b.Succs {
			if legit(ifi.Cond, i == 0) {
				avoid[edge{b, s}] = true
			}
		}
	}
	reach, used := reachAvoiding(h, nil, avoid)
	answers := func(v ssa.Value, reachable bool) bool { // true: fine
		if !reachable {
			return true
		}
		if k, ok := v.(*ssa.Const); ok {
			if k.Value != nil && k.Value.Kind() == constant.Bool {
				return constant.BoolVal(k.Value) != pol
			}
			return false
		}
		return legit(v, pol)
	}
	for _, b := range h.Blocks {
		if len(b.Instrs) == 0 {
			continue
		}
		ret, ok := b.Instrs[len(b.Instrs)-1].(*ssa.Return)
		if !ok || idx >= len(ret.Results) {
			continue
		}
		// a failing return gives no answer at all
		if ei := errResultIndex(h); ei >= 0 && ei != idx {
			if provablyNonNil(unspill(ret.Results[ei], b), b) {
				continue
			}
		}
		rv := unspill(ret.Results[idx], b)
		if phi, isPhi := rv.(*ssa.Phi); isPhi && phi.Block() == b {
			for i, e := range phi.Edges {
				p := b.Preds[i]
				if !answers(e, reach[p] && used[edge{p, b}]) {
					return false
				}
			}
			continue
		}
		if !answers(rv, reach[b]) {
			return false
		}
	}
	return true
}

// inspectRegion walks the syntax of fi and of the new functions it (transitively) uses:
// rules that look for a construct "in fi" find it wherever it was moved to.
func (w *World) inspectRegion(fi *FuncInfo, visit func(ast.Node) bool) {
	for _, f := range w.astRegion(fi) {
		// (the type information of all analysed packages is one united view, see loadWorld)
		ast.Inspect(f.Decl, visit)
	}
}

// normCallName: different spellings of one library operation.
func normCallName(n string) string {
	switch {
	case strings.HasPrefix(n, "reflect.TypeFor"):
		return "reflect.TypeOf"
	}
	return n
}

// takesEffectBefore: instruction a takes effect before instruction b inside fi's region -
// decided in the first function of the region in which both (or the calls leading to them)
// are written at different places. decided is false when no function of the region sees both.
func (w *World) takesEffectBefore(fi *FuncInfo, a, b ssa.Instruction) (before, decided bool) {
	for _, f := range w.regionFns(fi.SSA) {
		ha, hb := w.hostCallsIn(f, a), w.hostCallsIn(f, b)
		if len(ha) == 0 || len(hb) == 0 {
			continue
		}
		pa, pb := ha[0].Pos(), hb[0].Pos()
		if pa == pb {
			continue
		}
		return pa < pb, true
	}
	return false, false
}

// ---------------------------------------------------------------------------
// Renamed functions
//
// A function of the reviewed tree that is gone, while exactly one new function of the same
// package has its receiver type and its signature, was renamed: the checker keeps calling
// it by the name the rules know.

var nameAlias = map[string]string{} // current short name -> reviewed short name

func fnName(full string) string {
	s := short(full)
	if a, ok := nameAlias[s]; ok {
		return a
	}
	return s
}

func funcSigKey(fi *FuncInfo) string {
	sig := fi.Obj.Type().(*types.Signature)
	recv := ""
	if sig.Recv() != nil {
		recv = short(types.TypeString(sig.Recv().Type(), nil))
	}
	exported := "u"
	if ast.IsExported(fi.Decl.Name.Name) {
		exported = "e"
	}
	tuple := func(t *types.Tuple) string {
		var ps []string
		for i := 0; i < t.Len(); i++ {
			ps = append(ps, short(types.TypeString(t.At(i).Type(), nil))) // types only: parameter names are free
		}
		return "(" + strings.Join(ps, ", ") + ")"
	}
	variadic := ""
	if sig.Variadic() {
		variadic = "..."
	}
	return short(fi.Pkg.PkgPath) + "|" + recv + "|" + exported + "|func" + tuple(sig.Params()) + variadic + tuple(sig.Results())
}

func (w *World) detectRenames() {
	nameAlias = map[string]string{}
	if !w.base.loaded {
		return
	}
	bySig := map[string][]string{} // signature key -> new functions
	for k, fi := range w.Funcs {
		if !w.base.fns[k] && fi.Obj != nil {
			bySig[funcSigKey(fi)] = append(bySig[funcSigKey(fi)], k)
		}
	}
	missingBySig := map[string][]string{}
	for k, sg := range w.base.sigs {
		if w.Funcs[k] == nil {
			missingBySig[sg] = append(missingBySig[sg], k)
		}
	}
	for sg, news := range bySig {
		gone := missingBySig[sg]
		if len(news) == 1 && len(gone) == 1 {
			nameAlias[news[0]] = gone[0]
			continue
		}
		// several functions of one signature were renamed at once: pair them by what their bodies mention
		sort.Strings(news)
		sort.Strings(gone)
		taken := map[string]bool{}
		for _, g := range gone {
			best, bestSim, second := "", 0.0, 0.0
			for _, n := range news {
				if taken[n] {
					continue
				}
				sim := jaccard(libraryPrint(w.base.prints[g]), libraryPrint(bodyPrint(w.Funcs[n])))
				if sim > bestSim {
					best, second, bestSim = n, bestSim, sim
				} else if sim > second {
					second = sim
				}
			}
			if best != "" && bestSim >= 0.5 && bestSim-second >= 0.15 {
				nameAlias[best] = g
				taken[best] = true
			}
		}
	}
	// a reviewed function that is gone while its callers - every one of them that still exists -
	// now call one and the same new function of its package in its stead, whose body mentions
	// everything the reviewed body did: the function under a new name AND a new parameter list
	// (its parameters gathered into a struct, a function made a method of that struct)
	aliased := map[string]bool{}
	for _, g := range nameAlias {
		aliased[g] = true
	}
	var goneKeys []string
	for k := range w.base.sigs {
		if w.Funcs[k] == nil && !aliased[k] {
			goneKeys = append(goneKeys, k)
		}
	}
	sort.Strings(goneKeys)
	for _, g := range goneKeys {
		var callers []*FuncInfo
		for k, fp := range w.base.prints {
			if fi := w.Funcs[k]; fi != nil && fi.SSA != nil && slices.Contains(fp, "gcall:"+g) {
				callers = append(callers, fi)
			}
		}
		gp := libraryPrint(w.base.prints[g])
		if len(callers) == 0 || len(gp) < 2 {
			continue
		}
		var cand map[string]bool
		for _, cfi := range callers {
			here := map[string]bool{}
			allInstrsLocal(cfi.SSA, true, func(_ *ssa.Function, _ *ssa.BasicBlock, _ int, ins ssa.Instruction) {
				if cl, ok := ins.(ssa.CallInstruction); ok {
					if cf := cl.Common().StaticCallee(); cf != nil {
						k := fnReal(cf)
						if nf := w.Funcs[k]; nf != nil && !w.base.fns[k] && nameAlias[k] == "" && nf.Obj != nil && nf.Pkg.PkgPath == cfi.Pkg.PkgPath {
							here[k] = true
						}
					}
				}
			})
			if cand == nil {
				cand = here
			} else {
				for k := range cand {
					if !here[k] {
						delete(cand, k)
					}
				}
			}
		}
		best := ""
		n := 0
		bestSim, secondSim := 0.0, 0.0
		ck := make([]string, 0, len(cand))
		for k := range cand {
			ck = append(ck, k)
		}
		sort.Strings(ck)
		for _, k := range ck {
			np := libraryPrint(bodyPrint(w.Funcs[k]))
			inNew := 0
			for _, x := range gp {
				if slices.Contains(np, x) {
					inNew++
				}
			}
			if sim := jaccard(gp, np); inNew == len(gp) && sim >= 0.5 {
				n++
				if sim > bestSim {
					best, secondSim, bestSim = k, bestSim, sim
				} else if sim > secondSim {
					secondSim = sim
				}
			}
		}
		// several candidates mention everything the reviewed body did: the one that mentions little else
		if n > 1 && bestSim-secondSim >= 0.1 {
			n = 1
		}
		// ... or the one that kept the function's own name (a method made a plain function, or back)
		if n > 1 {
			gname := g[strings.LastIndex(g, ".")+1:]
			same := ""
			for _, k := range ck {
				if k[strings.LastIndex(k, ".")+1:] == gname {
					np := libraryPrint(bodyPrint(w.Funcs[k]))
					all := true
					for _, x := range gp {
						if !slices.Contains(np, x) {
							all = false
						}
					}
					if all {
						same = k
					}
				}
			}
			if same != "" {
				best, n = same, 1
			}
		}
		if n == 1 {
			nameAlias[best] = g
			w.stats["functions_renamed_with_new_signature"]++
		}
	}
	if len(nameAlias) == 0 {
		return
	}
	for nk, ok := range nameAlias {
		fi := w.Funcs[nk]
		delete(w.Funcs, nk)
		fi.Key = ok
		w.Funcs[ok] = fi
	}
	implCache = map[*types.Func][]string{}
	w.newMemo, w.newSites, w.newRefs, w.astSites, w.newParams, w.reach = nil, nil, nil, nil, nil, nil
	w.stats["functions_renamed_since_review"] = len(nameAlias)
}

// resultConstants: the constant values a returned value can be (through phis, new functions,
// and lookups in a map literal whose values are constants).
func (w *World) resultConstants(v ssa.Value) []string {
	var out []string
	for _, ov := range w.originValues(v) {
		switch x := ov.(type) {
		case *ssa.Const:
			if x.Value != nil {
				out = append(out, constString(x.Value))
			}
		case *ssa.Lookup:
			out = append(out, mapLiteralValues(x.X)...)
		case *ssa.Extract:
			if lk, ok := x.Tuple.(*ssa.Lookup); ok && x.Index == 0 {
				out = append(out, mapLiteralValues(lk.X)...)
			}
		}
	}
	return out
}

// mapLiteralValues: the constant values stored into a map built in place (MakeMap +
// MapUpdates) or loaded from a package-level variable initialised that way.
func mapLiteralValues(m ssa.Value) []string {
	var out []string
	collect := func(mk ssa.Value) {
		if refs := mk.Referrers(); refs != nil {
			for _, r := range *refs {
				if mu, ok := r.(*ssa.MapUpdate); ok && mu.Map == mk {
					if k, ok := mu.Value.(*ssa.Const); ok && k.Value != nil {
						out = append(out, constString(k.Value))
					}
				}
			}
		}
	}
	switch x := m.(type) {
	case *ssa.MakeMap:
		collect(x)
	case *ssa.UnOp:
		if g, ok := x.X.(*ssa.Global); ok && g.Pkg != nil {
			// initialised in the package initialiser: the value stored into the global
			if init := g.Pkg.Func("init"); init != nil {
				for _, b := range init.Blocks {
					for _, ins := range b.Instrs {
						if st, ok := ins.(*ssa.Store); ok && st.Addr == ssa.Value(g) {
							if mk, ok := st.Val.(*ssa.MakeMap); ok {
								collect(mk)
							}
						}
					}
				}
			}
		}
	}
	return out
}

// bodyPrint: what a function body mentions - the functions it calls (renames of its own
// callees aside) and its string literals; used only to tell apart functions of one signature
// that were renamed together.
func bodyPrint(fi *FuncInfo) []string {
	set := map[string]bool{}
	if fi.Decl.Body == nil {
		return nil
	}
	info := fi.Pkg.TypesInfo
	ast.Inspect(fi.Decl.Body, func(n ast.Node) bool {
		switch x := n.(type) {
		case *ast.CallExpr:
			if o, ok := typeutil.Callee(info, x).(*types.Func); ok && o.Pkg() != nil {
				if !isGleecePkg(o.Pkg().Path()) {
					set["call:"+o.FullName()] = true
				} else {
					set["gcall:"+fnName(o.FullName())] = true // by reviewed name
				}
			}
		case *ast.BasicLit:
			if x.Kind == token.STRING && len(x.Value) > 4 {
				set["lit:"+x.Value] = true
			}
		case *ast.SelectorExpr:
			if sel := info.Selections[x]; sel != nil && sel.Kind() == types.FieldVal {
				set["field:"+x.Sel.Name] = true
			}
		case *ast.CompositeLit:
			// `T{F: v}` writes field F just as `t.F = v` does
			if t := info.TypeOf(x); t != nil {
				if _, isStruct := derefUnderStruct(t); isStruct {
					for _, el := range x.Elts {
						if kv, ok := el.(*ast.KeyValueExpr); ok {
							if id, ok := kv.Key.(*ast.Ident); ok {
								set["field:"+id.Name] = true
							}
						}
					}
				}
			}
		}
		return true
	})
	ks := keys(set)
	if len(ks) > 300 {
		ks = ks[:300]
	}
	return ks
}

// libraryPrint: a fingerprint without the calls of gleece functions (whose names may be
// changing in the same commit)
func libraryPrint(fp []string) []string {
	var out []string
	for _, x := range fp {
		if !strings.HasPrefix(x, "gcall:") {
			out = append(out, x)
		}
	}
	return out
}

func jaccard(a, b []string) float64 {
	if len(a) == 0 && len(b) == 0 {
		return 1
	}
	in := map[string]bool{}
	for _, x := range a {
		in[x] = true
	}
	n := 0
	for _, x := range b {
		if in[x] {
			n++
		}
	}
	u := len(a) + len(b) - n
	if u == 0 {
		return 0
	}
	return float64(n) / float64(u)
}

// absorbedInto: reviewed function `gone` no longer exists (and was not renamed) and host's
// body now mentions everything gone's body mentioned (fields, library calls, string
// literals): gone was inlined into host.
func (w *World) absorbedInto(gone string, host *FuncInfo) bool {
	if !w.base.loaded || !w.base.fns[gone] || w.Funcs[gone] != nil {
		return false
	}
	fp := w.base.prints[gone]
	if len(fp) == 0 {
		return false
	}
	have := map[string]bool{}
	for _, f := range w.astRegion(host) {
		for _, x := range bodyPrint(f) {
			have[x] = true
		}
	}
	for _, x := range fp {
		if !have[x] {
			return false
		}
	}
	return true
}

// sigParamTypes: the parameter types of a funcSigKey string, counted.
func sigParamTypes(sig string) map[string]int {
	out := map[string]int{}
	i := strings.Index(sig, "|func(")
	if i < 0 {
		return out
	}
	rest := sig[i+len("|func("):]
	depth, start := 0, 0
	for j := 0; j < len(rest); j++ {
		switch rest[j] {
		case '(', '[', '{':
			depth++
		case ')', ']', '}':
			if depth == 0 {
				if t := strings.TrimSpace(rest[start:j]); t != "" {
					out[t]++
				}
				return out
			}
			depth--
		case ',':
			if depth == 0 {
				if t := strings.TrimSpace(rest[start:j]); t != "" {
					out[t]++
				}
				start = j + 1
			}
		}
	}
	return out
}

// isPathToKnown: atom is a qualified field "pkg.Type.f" whose type is a (pointer to a) struct
// type some field of which is among the known atoms.
func (w *World) isPathToKnown(atom string, known map[string]bool) bool {
	i := strings.LastIndex(atom, ".")
	if i <= 0 || strings.Contains(atom, ":") {
		return false
	}
	owner, fname := atom[:i], atom[i+1:]
	j := strings.LastIndex(owner, ".")
	if j <= 0 {
		return false
	}
	nt := w.lookupType(owner[:j], owner[j+1:])
	if nt == nil {
		return false
	}
	st, ok := nt.Underlying().(*types.Struct)
	if !ok {
		return false
	}
	for k := 0; k < st.NumFields(); k++ {
		if st.Field(k).Name() != fname {
			continue
		}
		ft, ok := derefNamed(st.Field(k).Type())
		if !ok || ft.Obj().Pkg() == nil {
			return false
		}
		if _, isStruct := ft.Underlying().(*types.Struct); !isStruct {
			return false
		}
		prefix := short(ft.Obj().Pkg().Path()) + "." + ft.Obj().Name() + "."
		for kn := range known {
			if strings.HasPrefix(kn, prefix) {
				return true
			}
		}
	}
	return false
}

func derefUnderStruct(t types.Type) (*types.Struct, bool) {
	if p, ok := t.Underlying().(*types.Pointer); ok {
		t = p.Elem()
	}
	st, ok := t.Underlying().(*types.Struct)
	return st, ok
}
