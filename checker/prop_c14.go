package main

import (
	"encoding/json"
	"fmt"
	"go/ast"
	"go/constant"
	"go/token"
	"go/types"
	"os"
	"path/filepath"
	"sort"
	"strings"

	"golang.org/x/tools/go/ssa"
)

func init() {
	register("C14", "Static structural obligations for 'every run terminates with success or a reported error, never a crash or hang': exhaustive inventories over gleece of (i) dereferences of results of functions that may return nil without an error, (ii) panic-capable sites (explicit panics, single-value type assertions, exits outside cmd, third-party calls documented to panic, reflect calls on possibly nil/zero values, constant indexes and search-result slice bounds without a dominating bound test), (iii) call-graph cycles and condition-only loops, (iv) dropped errors. Each site must be discharged by a mechanical side-condition (dominating guard) or be listed with its invariant in tables/crash.json; the invariants the table relies on are themselves checked. Decides gleece's own code; panics inside third-party libraries on exotic inputs, resource exhaustion and hangs in `go list` are not decided.", checkC14)
}

type crashTables struct {
	Panics    map[string]string `json:"panics"`
	Recursion map[string]string `json:"recursion"`
	Loops     map[string]string `json:"loops"`
	NilDeref  map[string]string `json:"nilderef"`
	ErrDrop   map[string]string `json:"errdrop"`
}

func loadCrashTables(verifDir string) (*crashTables, error) {
	b, err := os.ReadFile(filepath.Join(verifDir, "tables", "crash.json"))
	if err != nil {
		return nil, err
	}
	t := &crashTables{}
	return t, json.Unmarshal(b, t)
}

func checkC14(c *Ctx, r *Report) {
	w := c.W
	defer checkExactMembership(c, r, "C14.b")
	defer checkTypeSwitchArms(c, r, "C14.b")
	defer checkEndpointsResolvedLast(c, r, "C14.b")
	r.NotDecided = append(r.NotDecided, "panics inside third-party libraries on exotic inputs", "resource exhaustion; hangs inside `go list` / go/packages", "arbitrary computed indexes (only constant indexes and search-result slice bounds are inventoried)", "user-supplied template overrides")
	r.Assume = append(r.Assume, "the call graph used for recursion is static callees + interface invokes resolved to every gleece method implementing the interface", "a branch fact dominates a site if the site's block is dominated by the branch edge (intraprocedural)")
	tbl, err := loadCrashTables(c.VerifDir)
	if err != nil {
		r.undecided("C14.a", "table", "crash.json", "", "tables/crash.json unreadable: "+err.Error())
		return
	}

	// ---- C14.a nil dereferences
	sites, nCalls, sums := w.nilDerefSites()
	if len(sums) < 25 || nCalls < 60 {
		r.undecided("C14.a", "nilderef", "coverage", "", fmt.Sprintf("only %d may-return-nil summaries / %d call sites (floors 25/60): analysis lost coverage", len(sums), nCalls))
	}
	{
		o := r.add("C14.a", "nilderef", "summary", fmt.Sprintf("%d gleece functions may return a nil pointer without an error; all %d call sites were inspected for dereferences of the result not dominated by a nil test", len(sums), nCalls), sums, []string{"gleece:0"}, "")
		o.NonTrivial = true
	}
	seenND := map[string]bool{}
	for _, s := range sites {
		if seenND[s.Key] {
			continue
		}
		seenND[s.Key] = true
		viol := ""
		desc := "dereference of " + s.Callee + "'s possibly-nil result in " + s.Caller
		if reason, ok := tbl.NilDeref[s.Key]; ok {
			desc += " (invariant: " + reason + ")"
		} else {
			viol = fmt.Sprintf("%s: %s dereferences (%s) the result of %s, which returns nil on some path without an error, and no dominating branch establishes that it is non-nil here", w.pos(s.Pos), s.Caller, s.Use, s.Callee)
		}
		r.add("C14.a", "nilderef", s.Key, desc, []string{s.Caller, s.Callee}, []string{w.pos(s.Pos)}, viol)
	}
	r.count("may_return_nil_functions", len(sums))
	r.count("may_return_nil_call_sites", nCalls)
	// a possibly-nil value (nil literal on some path, missing map key) handed to a parameter the callee dereferences
	na := w.nilArgSites()
	for _, s := range na {
		viol := ""
		desc := "possibly-nil argument of " + s.Callee + " in " + s.Caller
		if reason, ok := tbl.NilDeref[s.Key]; ok {
			desc += " (invariant: " + reason + ")"
		} else {
			viol = fmt.Sprintf("%s: %s passes a value that is nil on some path (%s) to %s, which dereferences that parameter without a nil test: a crash, not a reported error", w.pos(s.Pos), s.Caller, s.Key[strings.Index(s.Key, " from ")+6:], s.Callee)
		}
		r.add("C14.a", "nilarg", s.Key, desc, []string{s.Caller, s.Callee}, []string{w.pos(s.Pos)}, viol)
	}
	r.count("possibly_nil_argument_sites", len(na))
	// optional configuration sections (pointer fields without `required`) are nil-tested before use
	seenOC := map[string]bool{}
	for _, s := range w.optionalConfigDerefSites() {
		if seenOC[s.Key] {
			continue
		}
		seenOC[s.Key] = true
		viol := ""
		desc := s.Key
		if reason, ok := tbl.NilDeref[s.Key]; ok {
			desc += " (invariant: " + reason + ")"
		} else {
			viol = fmt.Sprintf("%s: %s dereferences the optional configuration section %s without a nil test: a valid configuration that omits the section crashes the command", w.pos(s.Pos), s.Caller, s.Callee)
		}
		r.add("C14.a", "nilarg", s.Key, desc, []string{s.Caller}, []string{w.pos(s.Pos)}, viol)
	}
	// reduced models keep one entry per declared field: instantiateGenericModel indexes them by declaration index
	ruleEach(c, r, "C14.b", "(core/metadata.StructMeta).Reduce",
		func(fi *FuncInfo) func(ast.Expr) bool { return w.rangeOverField(fi, "core/metadata.StructMeta.Fields") }, "s.Fields",
		func(fi *FuncInfo) func(ast.Node) bool { return w.callPred(fi, "(core/metadata.FieldMeta).Reduce") }, "field.Reduce",
		func(fi *FuncInfo) []skipSpec {
			return []skipSpec{{Cond: func(e ast.Expr) bool { return len(jsonVisibilityGaps(w.exprAtomsDeep(fi, e))) == 0 }, Pol: false, Desc: "the field is not JSON-visible"}}
		}, true,
		"StructMeta.Reduce yields exactly one reduced field per JSON-visible declared field")
	// ... and instantiateGenericModel, which addresses the reduced fields by position while it walks
	// the declared ones, leaves out exactly the same fields (else it indexes past the end, or
	// retypes the wrong property)
	{
		profile := func(fnKey, pkg string) (map[string]bool, []string) {
			out := map[string]bool{}
			var sites []string
			for _, sk := range w.skipSites(pkg) {
				if sk.Fn != fnKey || !strings.Contains(sk.Over, "core/metadata.FieldMeta") {
					continue
				}
				sites = append(sites, w.pos(sk.Pos))
				for f := range sk.Atoms.Fields {
					if f != "core/metadata.StructMeta.Fields" {
						out["field:"+f] = true
					}
				}
				for cl := range sk.Atoms.Calls {
					if n := normCallName(strings.TrimPrefix(cl, "inlined:")); !isPlumbingCall(n) {
						out["call:"+n] = true
					}
				}
				for l := range sk.Atoms.Lits {
					if strings.HasPrefix(l, "\"") {
						out["lit:"+l] = true
					}
				}
			}
			return out, sites
		}
		const red, inst = "(core/metadata.StructMeta).Reduce", "graphs/symboldg.instantiateGenericModel"
		a, sa := profile(red, "core/metadata")
		b, sb := profile(inst, "graphs/symboldg")
		viol := ""
		for k := range a {
			if !b[k] {
				viol = fmt.Sprintf("%s leaves fields out depending on %s, %s does not: the positions of the reduced fields no longer line up with the declared ones (index out of range, or the type argument written to the wrong property)", red, k, inst)
			}
		}
		// (instantiateGenericModel may additionally pass over fields it has nothing to rewrite in -
		// after it has counted them; what must not happen is that Reduce drops a field it counts)
		if gaps := jsonVisibilityGapsOfProfile(b); len(a) > 0 && len(gaps) > 0 {
			viol = fmt.Sprintf("%s does not leave out the JSON-invisible fields that %s drops (missing: %v): the positions of the reduced fields no longer line up with the declared ones", inst, red, gaps)
		}
		o := r.add("C14.b", "sibling", "reduced-fields~declared-fields", "the reduction of a struct and the instantiation of a generic struct skip the same declared fields, so positions in the reduced field list line up", []string{red, inst}, append(sa, sb...), viol)
		o.NonTrivial = true
	}
	ruleSkipInventory(c, r, "C14.b", loadSkipTable(c.VerifDir), 1, "core/metadata")
	// file-system errors are never lost: after a failing os/io call every way on is a failure exit
	checkIOErrors(c, r, tbl)

	// ---- C14.b panic-capable sites
	ps := w.panicSites()
	if len(ps) < 25 {
		r.undecided("C14.b", "panicsites", "coverage", "", fmt.Sprintf("only %d panic-capable sites found (floor 25)", len(ps)))
	}
	for _, s := range ps {
		viol := ""
		desc := s.Kind + " site " + s.What + " in " + s.Fn
		if reason, ok := tbl.Panics[s.Key]; ok {
			desc += " is safe: " + reason
		} else {
			viol = fmt.Sprintf("%s: %s in %s can abort the process (%s) and is neither discharged by a dominating guard nor listed with an invariant in tables/crash.json", w.pos(s.Pos), s.Kind, s.Fn, s.What)
		}
		r.add("C14.b", "panicsites", s.Key, desc, []string{s.Fn}, []string{w.pos(s.Pos)}, viol)
	}
	r.count("panic_capable_sites", len(ps))
	checkPanicInvariants(c, r)

	// ---- C14.c termination
	sccs := w.recursionSCCs()
	for _, comp := range sccs {
		key := strings.Join(comp, " ")
		viol := ""
		desc := "call-graph cycle terminates"
		if reason, ok := tbl.Recursion[key]; ok {
			desc += ": " + reason
		} else {
			viol = fmt.Sprintf("recursion cycle {%s} is not in the reviewed table: no termination argument (variant / in-progress guard) is recorded for it", key)
		}
		var ss []string
		for _, n := range comp {
			if fi := w.fn(n); fi != nil {
				ss = append(ss, w.pos(fi.Decl.Pos()))
			}
		}
		o := r.add("C14.c", "recursion", "scc:"+key, desc, comp, ss, viol)
		o.NonTrivial = len(comp) > 1
	}
	for _, l := range w.condLoops() {
		viol := ""
		desc := "condition-only loop `" + l.Desc + "` terminates"
		if reason, ok := tbl.Loops[l.Key]; ok {
			desc += ": " + reason
		} else if reason := unrolledRecursion(w, tbl, l.Fn, sccs); reason != "" {
			desc += ": " + reason
		} else {
			viol = fmt.Sprintf("%s: loop `%s` in %s has no init/cond/post triple and no recorded variant", w.pos(l.Pos), l.Desc, l.Fn)
		}
		r.add("C14.c", "loops", l.Key, desc, []string{l.Fn}, []string{w.pos(l.Pos)}, viol)
	}
	r.count("recursion_cycles", len(sccs))
	checkMaterializeGuard(c, r)
	// nothing waits on a goroutine: a run cannot block for ever on a channel or WaitGroup
	checkNoGoroutines(c, r, "C14.c")

	// ---- C14.d dropped errors
	r.count("dropped_error_sites", ruleErrDrops(c, r, "C14.d"))
	// a failed command ends with a non-zero status
	checkCommandExitStatus(c, r, "C14.d")
	// the error chain from the visitors to cmd
	ruleMustCallOK(c, r, "C14.d", "(*core/pipeline.GleecePipeline).Run", "(*core/pipeline.GleecePipeline).GenerateGraph", -1, "Run fails when graph generation recorded a visitor error")
	if fi := need(c, r, "C14.d", "(*core/pipeline.GleecePipeline).GenerateGraph"); fi != nil {
		viol := ""
		var ss []string
		// success only when GetLastError() == nil
		for _, ex := range exitsOf(fi.SSA) {
			if ex.Ret == nil || ex.Kind != exitSuccess {
				continue
			}
			ss = append(ss, w.pos(retPos(ex)))
			ok := false
			for _, f := range dominatingFacts(ex.Block) {
				cnd, pol := unwrapNot(f.Cond, f.Pol)
				if bo, isB := cnd.(*ssa.BinOp); isB && sliceOf(cnd).Calls["(*core/visitors.VisitorOrchestrator).GetLastError"] {
					if (bo.Op == token.NEQ && !pol) || (bo.Op == token.EQL && pol) {
						ok = true
					}
				}
			}
			if !ok {
				viol = fmt.Sprintf("%s: GenerateGraph reports success without GetLastError() == nil", w.pos(retPos(ex)))
			}
		}
		r.add("C14.d", "guardedby", fi.Key+":success-iff-no-visitor-error", "visitor errors are values that stop the pipeline", []string{fi.Key}, ss, viol)
	}
	// malformed JSON5 is an error (shared with C16.a)
	ruleErrPropagates(c, r, "C14.d", "core/annotations.parseCommentNode", "github.com/titanous/json5.Unmarshal", -1, "malformed JSON5 in an annotation is returned as an error")
	ruleErrPropagates(c, r, "C14.d", "core/annotations.NewAnnotationHolder", "core/annotations.parseCommentNode", -1, "NewAnnotationHolder fails on a malformed annotation")
}

// checkPanicInvariants verifies the invariants that table entries rely on.
func checkPanicInvariants(c *Ctx, r *Report) {
	w := c.W
	// controller-node-data
	{
		var ss []string
		viol := ""
		n := 0
		for _, cl := range w.callersOf(nameIs("(*graphs/symboldg.SymbolGraph).createAndAddSymNode")) {
			// the operands, wherever a refactoring put them: positional arguments, or the fields of a
			// parameter struct built for the call
			ops := callOperandValues(cl)
			isController := false
			for _, v := range ops {
				if k, ok := v.(*ssa.Const); ok && k.Value != nil && strings.HasSuffix(k.Type().String(), "common.SymKind") && constString(k.Value) == "Controller" {
					isController = true
				}
			}
			if !isController {
				continue
			}
			n++
			ss = append(ss, w.pos(cl.Pos()))
			if fnShort(cl.Parent()) != "(*graphs/symboldg.SymbolGraph).AddController" {
				viol = fmt.Sprintf("%s: a node of kind Controller is created outside AddController", w.pos(cl.Pos()))
			}
			okData := false
			for _, v := range ops {
				if mi, ok := v.(*ssa.MakeInterface); ok && short(types.TypeString(mi.X.Type(), nil)) == "core/metadata.ControllerMeta" {
					okData = true
				}
			}
			if !okData {
				viol = fmt.Sprintf("%s: the Controller node's Data is not a metadata.ControllerMeta value", w.pos(cl.Pos()))
			}
		}
		if n != 1 {
			viol = fmt.Sprintf("expected exactly one creation site of Controller nodes, found %d", n)
		}
		r.add("C14.b", "whowrites", "invariant:controller-node-data", "Controller nodes carry a metadata.ControllerMeta value (makes getControllers' assertion safe)", []string{"(*graphs/symboldg.SymbolGraph).AddController"}, ss, viol)
	}
	// a controller and its receivers always carry an annotation holder: the validators and the
	// reducers call methods on it without a nil test (a declaration without a doc comment gets an
	// empty holder, not none)
	for _, t := range []struct{ fn, field, what string }{
		{"(*core/visitors.ControllerVisitor).createControllerMetadata", "Annotations", "the controller's SymNodeMeta.Annotations"},
		{"(*core/visitors.RouteVisitor).getExecutionContext", "Annotations", "the receiver's executionContext.Annotations"},
	} {
		fi := need(c, r, "C14.a", t.fn)
		if fi == nil {
			continue
		}
		viol := ""
		var ss []string
		allInstrs(fi.SSA, true, func(_ *ssa.Function, b *ssa.BasicBlock, _ int, ins ssa.Instruction) {
			st, ok := ins.(*ssa.Store)
			if !ok {
				return
			}
			fa, ok := st.Addr.(*ssa.FieldAddr)
			if !ok {
				return
			}
			fv := structFieldVar(fa.X.Type(), fa.Field)
			if fv == nil || fv.Name() != t.field {
				return
			}
			if _, isPtr := fv.Type().Underlying().(*types.Pointer); !isPtr {
				return
			}
			ss = append(ss, w.pos(st.Pos()))
			nonNil := false
			for _, ov := range w.originValues(st.Val) {
				switch ov.(type) {
				case *ssa.Alloc:
					nonNil = true
				default:
					nonNil = provablyNonNil(ov, b)
				}
				if !nonNil {
					break
				}
			}
			if !nonNil {
				viol = fmt.Sprintf("%s: %s may be stored as nil (the stored value is not the address of a holder, and no nil test dominates the store): CommonValidator.Validate, Reduce and the link validator call methods on it unconditionally - a declaration without a doc comment would crash the command instead of being reported", w.pos(st.Pos()), t.what)
			}
		})
		if len(ss) == 0 {
			viol = "no store into " + t.what + " found in " + t.fn
			ss = []string{w.pos(fi.Decl.Pos())}
		}
		r.add("C14.a", "whowrites", "invariant:annotation-holder-non-nil:"+t.fn, t.what+" is always a holder (possibly empty), never nil", []string{t.fn}, ss, viol)
	}
	// kind-guard
	ruleGuarded(c, r, "C14.b", "(*graphs/symboldg.SymbolGraph).ensureTypeNode", "invariant:kind-guard",
		func(ins ssa.Instruction) bool {
			ta, ok := ins.(*ssa.TypeAssert)
			return ok && !ta.CommaOk
		},
		func(a *sliceAtoms, cnd ssa.Value) bool {
			bo, ok := cnd.(*ssa.BinOp)
			return ok && bo.Op == token.EQL && a.Calls["(core/metadata.TypeRef).Kind"]
		}, true, 1, "the *ParamTypeRef assertion is dominated by root.Kind() == TypeRefKindParam")
	if kinds := w.callersOf(func(string) bool { return false }); kinds == nil {
		// who returns TypeRefKindParam from Kind()
		var ss []string
		viol := ""
		n := 0
		for _, fn := range w.SSAFuncs {
			if fn.Name() != "Kind" || fn.Signature.Recv() == nil || fn.Pkg == nil || short(fn.Pkg.Pkg.Path()) != "core/metadata/typeref" {
				continue
			}
			for _, ex := range exitsOf(fn) {
				if ex.Ret == nil {
					continue
				}
				if k, ok := ex.Ret.Results[0].(*ssa.Const); ok && k.Value != nil && constString(k.Value) == "param" {
					n++
					ss = append(ss, w.pos(fn.Pos()))
					if !strings.Contains(fn.Signature.Recv().Type().String(), "ParamTypeRef") {
						viol = fmt.Sprintf("%s: %s also reports kind 'param': the assertion to *ParamTypeRef would panic for it", w.pos(fn.Pos()), fnShort(fn))
					}
				}
			}
		}
		if n != 1 {
			viol = fmt.Sprintf("expected exactly one Kind() implementation returning TypeRefKindParam, found %d", n)
		}
		r.add("C14.b", "setagree", "invariant:kind-guard-unique", "only *ParamTypeRef.Kind() answers TypeRefKindParam", []string{"core/metadata/typeref"}, ss, viol)
	}
	// engine tables agree
	checkEngineTables(c, r, "C14.b")
	// void signature is an error
	if fi := need(c, r, "C14.b", "core/validators.getDiagForRetSig"); fi != nil {
		viol := "no error diagnostic is produced for a signature without return values (len == 0)"
		var ss []string
		for _, cl := range callsIn(fi.SSA, false, nameIs(diagPkg+".NewErrorDiagnostic")) {
			for _, f := range guardsOf(cl) {
				cnd, pol := unwrapNot(f.Cond, f.Pol)
				if zeroLenFact(cnd, pol) {
					ss = append(ss, w.pos(cl.Pos()), w.pos(instrPos(f.From)))
					viol = ""
				}
			}
		}
		r.add("C14.b", "guardedby", "invariant:void-signature-is-error", "a method without return values is rejected with an error diagnostic (so helpers never see an empty Responses list)", []string{fi.Key}, ss, viol)
	}
	ruleResultReturned(c, r, "C14.b", "(core/validators.ReceiverValidator).validateReturnTypes", "core/validators.getDiagForRetSig")
	// helpers registered once
	ruleGuarded(c, r, "C14.b", "generator/routes.GenerateRoutes", "invariant:helpers-registered-once",
		func(ins ssa.Instruction) bool {
			cl, ok := ins.(ssa.CallInstruction)
			return ok && calleeName(cl) == "generator/routes.registerHandlebarsHelpers"
		},
		func(a *sliceAtoms, cnd ssa.Value) bool { return a.Globals["generator/routes.helpersRegistered"] }, false, 1,
		"registerHandlebarsHelpers runs only while helpersRegistered is false")
	ruleWhoCalls(c, r, "C14.b", nameIs("generator/routes.registerHandlebarsHelpers"), "generator/routes.registerHandlebarsHelpers", []string{"generator/routes.GenerateRoutes"}, 1, "helpers are registered from GenerateRoutes only")
	ruleGuarded(c, r, "C14.b", "generator/routes.registerPartials", "invariant:partials-reset-before-register",
		func(ins ssa.Instruction) bool {
			cl, ok := ins.(ssa.CallInstruction)
			return ok && calleeName(cl) == pkgRaymond+".RemoveAllPartials"
		},
		func(a *sliceAtoms, cnd ssa.Value) bool { return a.Globals["generator/routes.partialsRegistered"] }, true, 1,
		"previously registered partials are removed before registering again")
	if fi := need(c, r, "C14.b", "generator/routes.registerPartials"); fi != nil {
		// RemoveAllPartials precedes RegisterPartials; the flag is set afterwards
		viol := ""
		var ss []string
		rem := callsIn(fi.SSA, false, nameIs(pkgRaymond+".RemoveAllPartials"))
		reg := callsIn(fi.SSA, false, nameIs(pkgRaymond+".RegisterPartials"))
		for _, g := range reg {
			ss = append(ss, w.pos(g.Pos()))
			for _, rm := range rem {
				if g.Block() == rm.Block() || g.Block().Dominates(rm.Block()) {
					viol = fmt.Sprintf("%s: RegisterPartials is not after the reset", w.pos(g.Pos()))
				}
			}
		}
		setFlag := false
		for _, gw := range w.globalWrites() {
			if gw.Global == "generator/routes.partialsRegistered" && gw.Fn == fi.Key {
				setFlag = true
				ss = append(ss, gw.Pos)
			}
		}
		if !setFlag {
			viol = "partialsRegistered is never set after registration: a second generation in one process would register twice and panic"
		}
		r.add("C14.b", "mustcall", "invariant:partials-flag-set", "the registration flag is maintained", []string{fi.Key}, ss, viol)
	}
	checkVerbTables(c, r, "C14.b")
}

// checkEngineTables: oneof tag of RoutesConfig.Engine = RoutingEngine* constants = labels
// of both engine switches (so the two panics are unreachable for a validated config).
func checkEngineTables(c *Ctx, r *Report, clause string) {
	w := c.W
	rc := w.lookupType("definitions", "RoutesConfig")
	tag, _ := tagOf(rc, "Engine", "validate")
	oneof := oneofValues(tag)
	consts := values(w.constsOfType(w.lookupType("definitions", "RoutingEngineType")))
	var ss []string
	if f := fieldOf(rc, "Engine"); f != nil {
		ss = append(ss, w.pos(f.Pos()))
	}
	ruleSetEqual(c, r, clause, "engine:oneof==consts", "the engines accepted by configuration validation are the declared RoutingEngine constants", "oneof of RoutesConfig.Engine", oneof, "RoutingEngine* constants", consts, ss)
	{
		// ... and the empty engine is not accepted either: `oneof` alone is skipped for an omitted
		// value under `omitempty`
		v := ""
		rules := strings.Split(tag, ",")
		has := func(x string) bool {
			for _, ru := range rules {
				if ru == x {
					return true
				}
			}
			return false
		}
		if !has("required") || has("omitempty") {
			v = "RoutesConfig.Engine is validated with `" + tag + "`: an omitted engine passes validation and reaches the engine switches of the routes generator, whose default arm panics"
		}
		r.add(clause, "tagrule", "engine:required", "a validated configuration always names an engine", []string{"definitions.RoutesConfig.Engine"}, ss, v)
	}
	for _, fnk := range []string{"generator/routes.getDefaultTemplate", "generator/routes.registerPartials"} {
		fi := need(c, r, clause, fnk)
		if fi == nil {
			continue
		}
		var labels []string
		var s2 []string
		{
			labs, ps := w.dispatchLabels(fi, func(tag ast.Expr) bool {
				t := fi.Pkg.TypesInfo.TypeOf(tag)
				return t != nil && strings.HasSuffix(t.String(), "definitions.RoutingEngineType")
			})
			labels = append(labels, labs...)
			for _, p := range ps {
				s2 = append(s2, w.pos(p))
			}
		}
		ruleSetEqual(c, r, clause, "engine:oneof=="+fnk+"-cases", "every engine a validated configuration can name has an arm in "+fnk+" (its panic is unreachable)", "oneof of RoutesConfig.Engine", oneof, fnk+" switch", dedupSorted(labels), append(ss, s2...))
	}
	// the template sets on disk
	ruleSetEqual(c, r, clause, "engine:oneof==template-packages", "every configurable engine has an embedded template set", "oneof of RoutesConfig.Engine", oneof, "generator/templates/* packages", append([]string{}, c.T.Order...), ss)
}

// checkMaterializeGuard: recursion through type declarations is cut by the in-progress set.
func checkMaterializeGuard(c *Ctx, r *Report) {
	w := c.W
	const edm = "(*core/visitors.TypeDeclVisitor).EnsureDeclMaterialized"
	fi := need(c, r, "C14.c", edm)
	if fi == nil {
		return
	}
	ruleGuarded(c, r, "C14.c", edm, "materialize-guard",
		func(ins ssa.Instruction) bool {
			cl, ok := ins.(ssa.CallInstruction)
			return ok && calleeName(cl) == "(*core/visitors.TypeDeclVisitor).VisitTypeDecl"
		},
		func(a *sliceAtoms, cnd ssa.Value) bool {
			return a.Calls["(core/metadata.MetaCache).StartMaterializing"] || a.Calls["(*core/arbitrators/caching.MetadataCache).StartMaterializing"]
		}, true, 1, "the recursive descent (VisitTypeDecl) runs only when StartMaterializing(key) claimed the declaration")
	// every exit after the claim releases it
	viol := ""
	var ss []string
	isFinish := func(n string) bool {
		return n == "(core/metadata.MetaCache).FinishMaterializing" || n == "(*core/arbitrators/caching.MetadataCache).FinishMaterializing"
	}
	fin := map[*ssa.BasicBlock]bool{}
	var finCalls []ssa.CallInstruction
	for _, cl := range callsInLocal(fi.SSA, false, isFinish) {
		fin[cl.Block()] = true
		finCalls = append(finCalls, cl)
		ss = append(ss, w.pos(cl.Pos()))
	}
	// a new function that always releases the claim stands for the release
	for _, hc := range w.newHelperCalls(fi.SSA) {
		h := w.newCallee(hc)
		if w.summary(sumKey{namedOf(h), "call", "FinishMaterializing", 0}, func() bool { _, v := w.mustPassCall(h, isFinish, "FinishMaterializing"); return v == "" }) {
			fin[hc.Block()] = true
			finCalls = append(finCalls, hc)
			ss = append(ss, w.pos(hc.Pos()))
		}
	}
	for _, vt := range callsInLocal(fi.SSA, false, nameIs("(*core/visitors.TypeDeclVisitor).VisitTypeDecl")) {
		ss = append(ss, w.pos(vt.Pos()))
		releasedInBlock := false
		for _, fc := range finCalls {
			if fc.Block() == vt.Block() && instrDominates(vt, fc) {
				releasedInBlock = true // released right after the descent, whatever its verdict
			}
		}
		if releasedInBlock {
			continue
		}
		seen := map[*ssa.BasicBlock]bool{}
		stack := []*ssa.BasicBlock{vt.Block()}
		for len(stack) > 0 {
			b := stack[len(stack)-1]
			stack = stack[:len(stack)-1]
			if seen[b] {
				continue
			}
			seen[b] = true
			if fin[b] && b != vt.Block() {
				continue
			}
			if len(b.Succs) == 0 {
				if _, isRet := b.Instrs[len(b.Instrs)-1].(*ssa.Return); isRet && !(fin[b]) {
					viol = fmt.Sprintf("%s: EnsureDeclMaterialized can return after claiming the declaration without FinishMaterializing: the key stays 'in progress' forever and later usages are silently treated as already handled", w.pos(instrPos(b)))
				}
			}
			stack = append(stack, b.Succs...)
		}
	}
	if len(fin) < 1 {
		viol = "EnsureDeclMaterialized never calls FinishMaterializing"
	}
	o := r.add("C14.c", "mustcall", edm+":finish-on-every-exit", "Start/FinishMaterializing are paired on every path", []string{edm}, ss, viol)
	o.NonTrivial = true

	// StartMaterializing semantics: false when visited or in progress, otherwise marks in progress
	if sfi := need(c, r, "C14.c", "(*core/arbitrators/caching.MetadataCache).StartMaterializing"); sfi != nil {
		viol := ""
		var ss []string
		nTrue := 0
		for _, ex := range exitsOf(sfi.SSA) {
			if ex.Ret == nil {
				continue
			}
			ss = append(ss, w.pos(retPos(ex)))
			if isBoolConst(ex.Ret.Results[0], true) {
				nTrue++
				// both membership tests are false here
				facts := dominatingFacts(ex.Block)
				nNeg := 0
				for _, f := range facts {
					cnd, pol := unwrapNot(f.Cond, f.Pol)
					a := sliceOf(cnd)
					if !pol && (a.hasFieldNamed("visited") || a.hasFieldNamed("inProgress")) {
						nNeg++
					}
				}
				if nNeg < 2 {
					viol = fmt.Sprintf("%s: StartMaterializing grants the claim without both 'not visited' and 'not in progress'", w.pos(retPos(ex)))
				}
			}
		}
		marks := false
		allInstrs(sfi.SSA, false, func(_ *ssa.Function, _ *ssa.BasicBlock, _ int, ins ssa.Instruction) {
			if mu, ok := ins.(*ssa.MapUpdate); ok && sliceOf(mu.Map).hasFieldNamed("inProgress") {
				marks = true
			}
		})
		if nTrue != 1 || !marks {
			viol = "StartMaterializing no longer marks the key as in progress exactly when it grants the claim"
		}
		r.add("C14.c", "guardedby", sfi.Key+":claim-semantics", "a declaration is claimed only if neither visited nor in progress, and is then marked in progress", []string{sfi.Key}, ss, viol)
	}

	// cut: without EnsureDeclMaterialized the declaration-level cycle disappears; the
	// residue is structural recursion over ast.Expr / TypeRef inside TypeUsageVisitor
	edges := w.callEdges()
	var target *ssa.Function
	for _, fn := range w.SSAFuncs {
		if fnShort(fn) == edm && fn.Parent() == nil {
			target = fn
		}
	}
	if target == nil {
		r.undecided("C14.c", "recursion", "materialize-cut", "", "EnsureDeclMaterialized SSA function not found")
		return
	}
	// reachability from VisitTypeDecl back to itself avoiding the guard
	var vtd *ssa.Function
	for _, fn := range w.SSAFuncs {
		if fnShort(fn) == "(*core/visitors.TypeDeclVisitor).VisitTypeDecl" && fn.Parent() == nil {
			vtd = fn
		}
	}
	viol = ""
	ss = nil
	if vtd == nil {
		viol = "VisitTypeDecl not found"
	} else {
		seen := map[*ssa.Function]bool{}
		var path []string
		var dfs func(f *ssa.Function, depth int) bool
		dfs = func(f *ssa.Function, depth int) bool {
			if f == target {
				return false
			}
			if seen[f] {
				return false
			}
			seen[f] = true
			for _, g := range edges[f] {
				if g == vtd {
					path = append(path, fnShort(f))
					return true
				}
				if dfs(g, depth+1) {
					path = append(path, fnShort(f))
					return true
				}
			}
			return false
		}
		if dfs(vtd, 0) {
			sort.Strings(path)
			viol = fmt.Sprintf("a call cycle through VisitTypeDecl exists that bypasses EnsureDeclMaterialized's in-progress guard (via %v): a recursive type would recurse without bound", path)
		}
		ss = append(ss, w.pos(vtd.Pos()), w.pos(target.Pos()))
		r.count("materialize_cut_functions_explored", len(seen))
	}
	o = r.add("C14.c", "recursion", "materialize-cut", "every call cycle through type-declaration visiting passes the StartMaterializing guard", []string{edm}, ss, viol)
	o.NonTrivial = true
}

// checkIOErrors: every call of an os / io function with an error result, anywhere in the
// analysed packages: the error is tested and all failure paths fail (or handed on).
func checkIOErrors(c *Ctx, r *Report, tbl *crashTables) {
	w := c.W
	n := 0
	for _, fn := range w.SSAFuncs {
		if fn.Pkg == nil {
			continue
		}
		allInstrs(fn, false, func(f *ssa.Function, _ *ssa.BasicBlock, _ int, ins ssa.Instruction) {
			cl, ok := ins.(ssa.CallInstruction)
			if !ok {
				return
			}
			if _, isDefer := ins.(*ssa.Defer); isDefer {
				return
			}
			nm := calleeName(cl)
			if !(strings.HasPrefix(nm, "os.") || strings.HasPrefix(nm, "(*os.File).") || strings.HasPrefix(nm, "io.") || strings.HasPrefix(nm, "path/filepath.Abs")) {
				return
			}
			ev := errorResultOf(cl)
			if ev == nil {
				return
			}
			n++
			key := fnShort(f) + ":" + nm
			viol := ""
			if ev.Referrers() == nil || len(*ev.Referrers()) == 0 {
				// best-effort clean-up calls may ignore their error
				if nm != "os.Remove" && nm != "os.RemoveAll" && nm != "(*os.File).Close" {
					viol = fmt.Sprintf("%s: the error of %s is discarded in %s", w.pos(cl.Pos()), nm, fnShort(f))
				}
			} else if errResultIndex(enclosingNamed(f)) >= 0 {
				tested := len(okEdgesOfCall(cl, -1)) > 0
				if tested {
					if _, v := w.errPropagatesAt(f, cl, -1, nm); v != "" {
						viol = v + " (the command would report success although the file-system operation failed)"
					}
				}
			}
			if viol != "" {
				if reason, ok := tbl.ErrDrop[key]; ok {
					viol = ""
					_ = reason
				}
			}
			r.add("C14.a", "ioerr", "io:"+key, "a failing "+nm+" in "+fnShort(f)+" ends in an error, never in a silent success", []string{fnShort(f)}, []string{w.pos(cl.Pos())}, viol)
		})
	}
	if n < 8 {
		r.undecided("C14.a", "ioerr", "io:coverage", "", fmt.Sprintf("only %d os/io calls with an error result found (floor 8)", n))
	}
	r.count("io_calls_with_error_result", n)
}

// zeroLenFact: the branch fact says that some len(x) is 0 (== 0, < 1, <= 0 held; != 0, > 0, >= 1 failed).
func zeroLenFact(cnd ssa.Value, pol bool) bool {
	bo, ok := cnd.(*ssa.BinOp)
	if !ok {
		return false
	}
	isLen := func(v ssa.Value) bool {
		c, ok := v.(*ssa.Call)
		if !ok {
			return false
		}
		b, ok := c.Call.Value.(*ssa.Builtin)
		return ok && b.Name() == "len"
	}
	constIs := func(v ssa.Value, n int64) bool {
		k, ok := v.(*ssa.Const)
		return ok && k.Value != nil && k.Value.Kind() == constant.Int && k.Int64() == n
	}
	x, y, op := bo.X, bo.Y, bo.Op
	if isLen(y) { // constant on the left: mirror
		x, y = y, x
		switch op {
		case token.LSS:
			op = token.GTR
		case token.GTR:
			op = token.LSS
		case token.LEQ:
			op = token.GEQ
		case token.GEQ:
			op = token.LEQ
		}
	}
	if !isLen(x) {
		return false
	}
	switch {
	case op == token.EQL && constIs(y, 0):
		return pol
	case op == token.NEQ && constIs(y, 0):
		return !pol
	case op == token.LSS && constIs(y, 1):
		return pol
	case op == token.LEQ && constIs(y, 0):
		return pol
	case op == token.GTR && constIs(y, 0):
		return !pol
	case op == token.GEQ && constIs(y, 1):
		return !pol
	}
	return false
}

// ruleErrDrops: every place where the error of a gleece function (or of a watched library
// call) is discarded, or tested and then tolerated (logged, carried on), in the functions of
// the given package prefixes (all when none) is reviewed in tables/crash.json. Returns the
// number of sites.
func ruleErrDrops(c *Ctx, r *Report, clause string, pkgPrefixes ...string) int {
	w := c.W
	tbl, err := loadCrashTables(c.VerifDir)
	if err != nil {
		r.undecided(clause, "errdrop", "tables/crash.json", "", err.Error())
		return 0
	}
	n := 0
	for _, s := range w.errDropSites() {
		if len(pkgPrefixes) > 0 {
			in := false
			rel := strings.TrimLeft(s.Fn, "(*")
			for _, p := range pkgPrefixes {
				if strings.HasPrefix(rel, p+".") || strings.HasPrefix(rel, p+"/") {
					in = true
				}
			}
			if !in {
				continue
			}
		}
		n++
		viol := ""
		desc := "error of " + s.Callee + " discarded or tolerated in " + s.Fn
		if reason, ok := tbl.ErrDrop[s.Key]; ok {
			desc += " (reviewed: " + reason + ")"
		} else if reason := w.tabledForAbsorbed(tbl.ErrDrop, s.Fn, s.Key); reason != "" {
			desc += " (reviewed, in a helper that was since inlined here: " + reason + ")"
		} else if strings.Contains(s.Key, ":tolerates(") {
			viol = fmt.Sprintf("%s: %s tests the error returned by %s and then carries on (at most logging it): the failure is neither reported as the command's result nor stops the work that depends on it", w.pos(s.Pos), s.Fn, s.Callee)
		} else {
			viol = fmt.Sprintf("%s: %s discards the error returned by %s: a failure would neither be reported nor stop the command", w.pos(s.Pos), s.Fn, s.Callee)
		}
		r.add(clause, "errdrop", s.Key, desc, []string{s.Fn, s.Callee}, []string{w.pos(s.Pos)}, viol)
	}
	return n
}

func jsonVisibilityGapsOfProfile(p map[string]bool) []string {
	var gaps []string
	if !p["call:go/ast.IsExported"] && !p["call:go/token.IsExported"] {
		gaps = append(gaps, "exportedness")
	}
	if !p["field:core/metadata.FieldMeta.IsEmbedded"] {
		gaps = append(gaps, "FieldMeta.IsEmbedded")
	}
	if !p[`lit:"-"`] {
		gaps = append(gaps, `the json:"-" tag`)
	}
	return gaps
}

// unrolledRecursion: fn was a member of a reviewed recursion cycle and no longer recurses: the
// recursion was rewritten as a loop over an explicit stack / work list, which walks the same
// finite structure - the termination argument recorded for the recursion carries over.
func unrolledRecursion(w *World, tbl *crashTables, fn string, sccs [][]string) string {
	for _, comp := range sccs {
		for _, n := range comp {
			if n == fn {
				return "" // still recursive: the loop is something else
			}
		}
	}
	for key, reason := range tbl.Recursion {
		for _, member := range strings.Fields(key) {
			if member == fn {
				return "the reviewed recursion of this function written as a loop over an explicit stack (" + reason + ")"
			}
		}
	}
	return ""
}

// tabledForAbsorbed: key "<host>:<construct>" is tabled for a reviewed function that no longer
// exists and whose body was absorbed into one of the hosts (a method turned into a plain
// function, a helper inlined): the reviewed entry moves with the code.
func (w *World) tabledForAbsorbed(table map[string]string, host, key string) string {
	i := strings.Index(key, ":")
	for j := i; j >= 0 && j < len(key); {
		// host names contain ':' only in the separator we look for; constructs follow the last host part
		break
	}
	construct := ""
	for _, h := range hostParts(host) {
		if strings.HasPrefix(key, host+":") {
			construct = strings.TrimPrefix(key, host+":")
		} else if strings.HasPrefix(key, h+":") {
			construct = strings.TrimPrefix(key, h+":")
		}
	}
	if construct == "" {
		return ""
	}
	for _, h := range hostParts(host) {
		hfi := w.Funcs[h]
		if hfi == nil {
			continue
		}
		for _, g := range w.vanishedFns() {
			if reason, ok := table[g+":"+construct]; ok && w.absorbedInto(g, hfi) {
				return reason
			}
		}
	}
	return ""
}

// callOperandValues: the values a call is given - its arguments and, for an argument that is a
// struct built for the call (a local composite literal, by value or by address), the values
// stored into that struct's fields.
func callOperandValues(cl ssa.CallInstruction) []ssa.Value {
	var out []ssa.Value
	for _, a := range cl.Common().Args {
		out = append(out, a)
		v := stripTrivial(a)
		var al *ssa.Alloc
		switch x := v.(type) {
		case *ssa.Alloc:
			al = x
		case *ssa.UnOp:
			al, _ = x.X.(*ssa.Alloc)
		}
		if al == nil || al.Referrers() == nil {
			continue
		}
		for _, rf := range *al.Referrers() {
			if fa, ok := rf.(*ssa.FieldAddr); ok && fa.Referrers() != nil {
				for _, r2 := range *fa.Referrers() {
					if st, ok := r2.(*ssa.Store); ok && st.Addr == ssa.Value(fa) {
						out = append(out, st.Val)
					}
				}
			}
		}
	}
	return out
}
