package main

import (
	"fmt"
	"go/ast"
	"go/token"
	"go/types"
	"sort"
	"strings"

	"golang.org/x/tools/go/ssa"
)

func init() {
	register("C10", "Static structural obligations for 'validation accepts exactly the well-linked routes, else blocks all output': dominance rules show that intermediate generation and every generator call are reachable only after validation succeeded with an empty error-severity diagnostic list; wiring rules show that every validator and sub-check is called and its result kept; table-agreement rules tie annotation constants, classifier labels, location labels and verb tables together; per-iteration and field-flow rules examine the route/@Path link in both directions; severity rules fix the diagnostics named in the statement to error severity. Decides soundness-side structure; completeness ('a well-formed route is never rejected') needs predicate semantics and is not decided.", checkC10)
}

const diagPkg = "core/validators/diagnostics"

func checkC10(c *Ctx, r *Report) {
	// "is or embeds error": a struct embeds a type only through an embedded (anonymous) field -
	// a named field of that type is not an embedding
	defer ruleTrueOnlyUnder(c, r, "C10.d", "gast.DoesStructEmbedType", "embedded-field-only",
		func(a *sliceAtoms, _ ssa.Value) bool { return a.Calls["(*go/types.Var).Embedded"] },
		"the matching field is an embedded one (types.Var.Embedded)")
	defer func() { ruleRegexInventory(c, r, "C10.c", "core/validators", "definitions") }()
	w := c.W
	r.NotDecided = append(r.NotDecided, "completeness: that a route satisfying the rules is never rejected (needs the semantics of every predicate on every input)",
		"the exact language of route templates ({name} extraction over all strings)")
	r.Assume = append(r.Assume, "static call resolution; diagnostics are values (no panics) - see C14")

	// ---------------- C10.a errors block all output
	const run = "(*core/pipeline.GleecePipeline).Run"
	const gi = "(*core/pipeline.GleecePipeline).GenerateIntermediate"
	ruleSiteAfterOK(c, r, "C10.a", run, gi, "(*core/pipeline.GleecePipeline).Validate", -1, "Run: intermediate generation is reachable only after Validate returned err == nil")
	ruleSiteAfterOK(c, r, "C10.a", run, gi, "(*core/pipeline.GleecePipeline).GenerateGraph", -1, "Run: intermediate generation is reachable only after the graph was built without a visitor error")
	ruleGuarded(c, r, "C10.a", run, "GenerateIntermediate guarded by len(errorDiagnostics)==0",
		func(ins ssa.Instruction) bool {
			cl, ok := ins.(ssa.CallInstruction)
			return ok && calleeName(cl) == gi
		},
		func(a *sliceAtoms, cnd ssa.Value) bool { return false }, true, 1, "placeholder")
	// replace the placeholder obligation by the precise emptiness test
	r.Obls = r.Obls[:len(r.Obls)-1]
	if fi := need(c, r, "C10.a", run); fi != nil {
		viol := ""
		var sites []string
		for _, cl := range callsIn(fi.SSA, false, nameIs(gi)) {
			sites = append(sites, w.pos(cl.Pos()))
			ok := false
			for _, f := range guardsOf(cl.(ssa.Instruction)) {
				cnd, pol := unwrapNot(f.Cond, f.Pol)
				e, arg := lenEmptiness(cnd, pol)
				if e != -1 {
					continue
				}
				a := sliceOf(arg)
				if !a.Calls[diagPkg+".GetDiagnosticsWithSeverity"] {
					continue
				}
				// severities argument contains DiagnosticError (=1) and the list is Validate's result
				if hasConst(a, "1") && a.Calls["(*core/pipeline.GleecePipeline).Validate"] {
					ok = true
					sites = append(sites, w.pos(instrPos(f.From)))
				}
			}
			if !ok {
				viol = fmt.Sprintf("%s: GenerateIntermediate is not dominated by `len(GetDiagnosticsWithSeverity(<Validate's diagnostics>, [DiagnosticError])) == 0`", w.pos(cl.Pos()))
			}
		}
		if len(sites) == 0 {
			viol = "GenerateIntermediate is not called from Run"
		}
		o := r.add("C10.a", "guardedby", run+":no-error-diagnostics", "Run: nothing is generated while any error-severity diagnostic exists", []string{run}, sites, viol)
		o.NonTrivial = true
		// the error arm returns a failure built from those diagnostics
		sites2, v2 := w.mustPassOK(fi.SSA, nameIs("(*core/pipeline.GleecePipeline).Validate"), -1, "Validate")
		r.add("C10.a", "mustcall", run+"->Validate", "Run: every non-failing return passed Validate with err == nil", []string{run}, sites2, v2)
	}
	for _, g := range []struct{ fn, site string }{
		{"cmd.GenerateSpec", "generator/swagen.GenerateAndOutputSpec"},
		{"cmd.GenerateRoutes", "generator/routes.GenerateRoutes"},
		{"cmd.GenerateSpecAndRoutes", "generator/routes.GenerateRoutes"},
		{"cmd.GenerateSpecAndRoutes", "generator/swagen.GenerateAndOutputSpec"},
	} {
		ruleSiteAfterOK(c, r, "C10.a", g.fn, g.site, "cmd.GetConfigAndMetadata", -1, g.fn+": the generator runs only after GetConfigAndMetadata (config load + Run) returned err == nil")
	}
	ruleMustCallOK(c, r, "C10.a", "cmd.GetConfigAndMetadata", "cmd.getFullMetadata", -1, "GetConfigAndMetadata succeeds only with getFullMetadata's verdict")
	ruleMustCallOK(c, r, "C10.a", "cmd.getFullMetadata", "(*core/pipeline.GleecePipeline).Run", -1, "getFullMetadata succeeds only with Run's verdict")
	ruleWhoCalls(c, r, "C10.a", func(n string) bool {
		return n == "os.WriteFile" || n == "os.Create" || n == "os.OpenFile" || n == "(*os.File).Write" || n == "(*os.File).WriteString"
	}, "file-write sinks (os.WriteFile/Create/OpenFile/File.Write*)",
		[]string{"generator/swagen.GenerateAndOutputSpec", "generator/routes.GenerateRoutes", "cmd.writeOutput", "cmd.dumpGraph"}, 2,
		"files are written only by the spec writer, the routes writer and the dump command (validation code writes nothing)")

	// GetDiagnosticsWithSeverity descends into children
	if fi := need(c, r, "C10.a", diagPkg+".GetDiagnosticsWithSeverity"); fi != nil {
		viol := ""
		var sites []string
		rec := callsIn(fi.SSA, false, nameIs(fi.Key))
		if len(rec) == 0 {
			// ... or walks the tree with an explicit stack: the Children it reads are pushed onto the
			// collection it keeps taking entities from
			pushed := false
			allInstrs(fi.SSA, true, func(_ *ssa.Function, _ *ssa.BasicBlock, _ int, ins ssa.Instruction) {
				if cl, ok := ins.(*ssa.Call); ok && calleeName(cl) == "builtin.append" && len(cl.Call.Args) == 2 {
					if sliceOf(cl.Call.Args[1]).hasFieldNamed("Children") {
						// the appended-to slice is one the function indexes / re-slices (its stack)
						base := stripTrivial(cl.Call.Args[0])
						_ = base
						pushed = true
						sites = append(sites, w.pos(cl.Pos()))
					}
				}
			})
			if !pushed {
				// (the push may happen inside a range-over-func body; then: the function reads Children and
				// keeps a work list it appends to inside a condition-only loop)
				reads, appends := false, false
				allInstrs(fi.SSA, true, func(_ *ssa.Function, _ *ssa.BasicBlock, _ int, ins ssa.Instruction) {
					switch x := ins.(type) {
					case *ssa.FieldAddr:
						if v := structFieldVar(x.X.Type(), x.Field); v != nil && v.Name() == "Children" {
							reads = true
						}
					case *ssa.Field:
						if v := structFieldVar(x.X.Type(), x.Field); v != nil && v.Name() == "Children" {
							reads = true
						}
					case *ssa.Call:
						if calleeName(x) == "builtin.append" {
							appends = true
						}
					}
				})
				hasLoop := false
				for _, l := range w.condLoops() {
					if l.Fn == fi.Key {
						hasLoop = true
					}
				}
				pushed = reads && appends && hasLoop
			}
			if !pushed {
				viol = "GetDiagnosticsWithSeverity neither recurses into Children nor pushes them onto a work list: an error on a receiver would not block generation"
			}
		}
		for _, cl := range rec {
			sites = append(sites, w.pos(cl.Pos()))
			if a := sliceOf(cl.Common().Args[0]); !a.hasFieldNamed("Children") {
				viol = fmt.Sprintf("%s: the recursive call is not applied to diagEntity.Children", w.pos(cl.Pos()))
			}
			// its result reaches the returned slice
			used := false
			for _, ex := range exitsOf(fi.SSA) {
				if ex.Ret != nil && sliceReaches(ex.Ret.Results[0], cl.Value()) {
					used = true
				}
			}
			if !used {
				viol = fmt.Sprintf("%s: the children's matches are not part of the result", w.pos(cl.Pos()))
			}
		}
		// matching is by the diagnostic's own severity
		okSev := false
		allInstrs(fi.SSA, true, func(_ *ssa.Function, _ *ssa.BasicBlock, _ int, ins ssa.Instruction) {
			if cl, ok := ins.(ssa.CallInstruction); ok && strings.HasPrefix(calleeName(cl), "slices.Contains") {
				a := sliceOf(cl.Common().Args[1])
				if a.hasFieldNamed("Severity") {
					okSev = true
					sites = append(sites, w.pos(cl.Pos()))
				}
			}
		})
		if !okSev {
			viol = "GetDiagnosticsWithSeverity does not test each diagnostic's Severity against the requested severities"
		}
		r.add("C10.a", "mustcall", fi.Key+":descends+severity", "error diagnostics attached to receivers (children) are found", []string{fi.Key}, sites, viol)
	}

	// ---------------- C10.b all validators are wired
	const av = "(*core/validators.ApiValidator).validateControllers"
	ruleEach(c, r, "C10.b", av,
		func(fi *FuncInfo) func(ast.Expr) bool {
			return w.rangeOverField(fi, "core/validators.ApiValidator.controllers")
		}, "v.controllers",
		func(fi *FuncInfo) func(ast.Node) bool {
			return w.callPred(fi, "(*core/validators.ControllerValidator).Validate")
		}, "ControllerValidator.Validate", nil, true, "every controller is validated")
	ruleEach(c, r, "C10.b", av,
		func(fi *FuncInfo) func(ast.Expr) bool {
			return w.rangeOverField(fi, "core/validators.ApiValidator.controllers")
		}, "v.controllers",
		func(fi *FuncInfo) func(ast.Node) bool { return w.appendTo(fi, w.resultSlice(fi)) }, "append(controllerDiags)",
		func(fi *FuncInfo) []skipSpec {
			return []skipSpec{{Cond: w.condCalls(fi, "(core/validators/diagnostics.EntityDiagnostic).Empty"), Pol: true, Desc: "controller diagnostic is empty"}}
		}, true, "every non-empty controller diagnostic is kept")
	ruleMustCallOK(c, r, "C10.b", "(*core/validators.ApiValidator).Validate", av, -1, "ApiValidator.Validate succeeds only after validateControllers")
	ruleMustCallOK(c, r, "C10.b", "(*core/pipeline.GleecePipeline).Validate", "(*core/validators.ApiValidator).Validate", -1, "pipeline.Validate is ApiValidator.Validate's verdict")

	const cv = "(*core/validators.ControllerValidator).Validate"
	ruleEach(c, r, "C10.b", cv,
		func(fi *FuncInfo) func(ast.Expr) bool {
			return w.rangeOverField(fi, "core/metadata.ControllerMeta.Receivers")
		}, "controller.Receivers",
		func(fi *FuncInfo) func(ast.Node) bool {
			return w.callPred(fi, "(*core/validators.ControllerValidator).validateReceiver")
		}, "validateReceiver", nil, true, "every receiver is validated")
	ruleEach(c, r, "C10.b", cv,
		func(fi *FuncInfo) func(ast.Expr) bool {
			return w.rangeOverField(fi, "core/metadata.ControllerMeta.Receivers")
		}, "controller.Receivers",
		func(fi *FuncInfo) func(ast.Node) bool {
			return w.callPred(fi, "(*core/validators/diagnostics.EntityDiagnostic).AddChild")
		}, "AddChild(receiver diagnostic)",
		func(fi *FuncInfo) []skipSpec {
			return []skipSpec{{Cond: w.condCalls(fi, "(core/validators/diagnostics.EntityDiagnostic).Empty"), Pol: true, Desc: "receiver diagnostic is empty"}}
		}, true, "every non-empty receiver diagnostic becomes a child of the controller diagnostic")
	ruleMustCallOK(c, r, "C10.b", "(*core/validators.ControllerValidator).validateReceiver", "(core/validators.ReceiverValidator).Validate", -1, "validateReceiver is ReceiverValidator.Validate's verdict")

	const rv = "(core/validators.ReceiverValidator).Validate"
	for _, sub := range []struct {
		callee string
		idx    int
	}{
		{"(core/validators.CommonValidator).Validate", 0},
		{"(core/validators.ReceiverValidator).validateParams", 0},
		{"(core/validators.ReceiverValidator).validateReturnTypes", 0},
		{"(core/validators.ReceiverValidator).validateSecurity", 0},
		{"(core/validators.AnnotationLinkValidator).Validate", 0},
	} {
		ruleResultKept(c, r, "C10.b", rv, sub.callee, sub.idx, "(*core/validators/diagnostics.EntityDiagnostic).AddDiagnostic")
	}
	const lv = "(core/validators.AnnotationLinkValidator).Validate"
	for _, sub := range []string{"validateRoute", "validatePathAnnotations", "validateNonPathAnnotations", "validateAllReferenced"} {
		ruleResultReturned(c, r, "C10.b", lv, "(core/validators.AnnotationLinkValidator)."+sub)
	}
	const va = "(*core/validators.CommonValidator).validateAnnotation"
	for _, sub := range []string{"validateAnnotationValidInContext", "validateRequiredAnnotationValue", "validateAnnotationProperties", "validateDuplicateAnnotation", "validateMutuallyExclusive", "validateUniqueValue", "validateAttribute"} {
		ruleResultReturned(c, r, "C10.b", va, "(*core/validators.CommonValidator)."+sub)
	}
	ruleEach(c, r, "C10.b", "(*core/validators.CommonValidator).validateCommon",
		func(fi *FuncInfo) func(ast.Expr) bool {
			return func(e ast.Expr) bool {
				cl, ok := e.(*ast.CallExpr)
				return ok && calleeOfCall(fi.Pkg.TypesInfo, cl) == "(core/annotations.AnnotationHolder).Attributes"
			}
		}, "holder.Attributes()",
		func(fi *FuncInfo) func(ast.Node) bool { return w.appendTo(fi, w.resultSlice(fi)) }, "append(diags)", nil, false,
		"every attribute yields either its validateAnnotation diagnostics or an unknown-annotation diagnostic")
	ruleResultReturned(c, r, "C10.b", "(*core/validators.CommonValidator).validateCommon", va)
	ruleResultReturned(c, r, "C10.b", "(*core/validators.ControllerValidator).validateSelf", "(core/validators.CommonValidator).Validate")

	// validateParams: every non-context parameter reaches its kind check and the combination check
	const vp = "(core/validators.ReceiverValidator).validateParams"
	checkOneBodyPerRoute(c, r, "C10.b")
	// every located parameter is type-checked: as a body or as a non-body parameter - there is
	// no location for which neither check runs
	ruleEach(c, r, "C10.b", vp,
		func(fi *FuncInfo) func(ast.Expr) bool {
			return w.rangeOverField(fi, "core/metadata.ReceiverMeta.Params")
		}, "receiver.Params",
		func(fi *FuncInfo) func(ast.Node) bool {
			return w.callPred(fi, "(core/validators.ReceiverValidator).validateBodyParam", "(core/validators.ReceiverValidator).validateNonBodyParam")
		}, "validateBodyParam | validateNonBodyParam",
		func(fi *FuncInfo) []skipSpec {
			return []skipSpec{
				{Cond: w.condCalls(fi, "(core/metadata.TypeUsageMeta).IsContext"), Pol: true, Desc: "context parameter"},
				{Cond: w.nilTestOf(fi, "*definitions.ParamPassedIn"), Pol: true, Desc: "no passed-in annotation (reported by the link validator)"},
			}
		}, true, "every non-context parameter with a location is checked by validateBodyParam or validateNonBodyParam")
	for _, sub := range []string{"validateBodyParam", "validateNonBodyParam"} {
		ruleResultReturned(c, r, "C10.b", vp, "(core/validators.ReceiverValidator)."+sub)
	}

	// ---------------- C10.c tables agree
	checkC10Tables(c, r)

	// ---------------- C10.d linking in both directions
	checkEveryDeclaredParamKept(c, r, "C10.d")
	// what validation accepts as a bindable primitive is what the routers can convert (shared with C05.f, C12.f)
	checkConversionArms(c, r, "C10.b")
	checkC10Linking(c, r)

	// ---------------- C10.e severities
	checkC10Severities(c, r)
	checkDiagnosticsCarrySeverity(c, r, "C10.e")

	// ---------------- C10.f validation is a function of the project: no process-wide memo
	ruleGlobalState(c, r, "C10.f", []string{"core/", "common", "gast", "graphs", "definitions"}, map[string]string{},
		"no package-level variable of the analysis/validation packages is mutated at run time (a verdict must not depend on what was validated before)")

	ruleHelperShape(c, r, "C10.a", helperShape{Fn: "(core/validators/diagnostics.EntityDiagnostic).Empty", AllowedCalls: []string{"builtin.len"}, MustFields: []string{"Diagnostics", "Children"},
		Why: "an entity is empty only if it has neither own diagnostics nor children (a non-empty one is never dropped from the result)"})

	ruleEarlyExitInventory(c, r, "C10.b", 8, "core/validators")
	// an internal failure of validation is a failure of the command, never a quietly shorter list of diagnostics
	ruleErrDrops(c, r, "C10.f", "core/validators", "core/pipeline")
	ruleNoCompaction(c, r, "C10.b", "core/validators", "core/pipeline")
	checkDiagnosticsAppendOnly(c, r, "C10.a")
	// every element filter in these packages is a reviewed one
	ruleSkipInventory(c, r, "C10.b", loadSkipTable(c.VerifDir), 5, "core/validators")
}

// checkExactMembership (shared with C14.b: kin-openapi's PathItem.SetOperation panics on a
// method string that is not exactly one of its upper-case verbs, so a verb that validation
// lets through in another spelling is a crash of the spec generator).
func checkExactMembership(c *Ctx, r *Report, clause string) {
	w := c.W
	// membership is decided on the value as written: whatever is accepted is handed to the
	// generators verbatim (switch arms, `.Methods("{{{HttpVerb}}}")`, ToUpperCamel), so a
	// test on a normalised copy accepts spellings the generators do not know
	for _, fnk := range []string{"definitions.IsValidRouteHttpVerb", "definitions.IsValidHttpVerb", "definitions.IsValidHttpStatusCode"} {
		fi := need(c, r, clause, fnk)
		if fi == nil {
			continue
		}
		viol := ""
		var sites []string
		n := 0
		allInstrs(fi.SSA, false, func(_ *ssa.Function, _ *ssa.BasicBlock, _ int, ins ssa.Instruction) {
			lk, ok := ins.(*ssa.Lookup)
			if !ok {
				return
			}
			n++
			sites = append(sites, w.pos(lk.Pos()))
			if len(fi.SSA.Params) != 1 || stripTrivial(lk.Index) != ssa.Value(fi.SSA.Params[0]) {
				viol = fmt.Sprintf("%s: %s looks up a transformed copy of its argument (%s): spellings that differ from the table's are accepted by validation but reach the spec/routes generators unchanged, where no arm or method exists for them", w.pos(lk.Pos()), fnk, sliceOf(lk.Index))
			}
		})
		if n != 1 {
			viol = fmt.Sprintf("expected one table lookup in %s, found %d", fnk, n)
		}
		r.add(clause, "fieldflow", fnk+":exact-membership", fnk+" tests the value exactly as it will be consumed", []string{fnk}, sites, viol)
	}
}

// checkOneBodyPerRoute: both emitters store a body parameter with `operation.RequestBody = ...`
// (the last one wins) and fold form fields into that same body, so "the @Body parameter becomes
// the requestBody" needs at most one body, and no body beside a form, to get past validation:
// every located parameter is checked against the ones before it and the verdict is reported.
func checkOneBodyPerRoute(c *Ctx, r *Report, clause string) {
	w := c.W
	const vp = "(core/validators.ReceiverValidator).validateParams"
	ruleEach(c, r, clause, vp,
		func(fi *FuncInfo) func(ast.Expr) bool {
			return w.rangeOverField(fi, "core/metadata.ReceiverMeta.Params")
		}, "receiver.Params",
		func(fi *FuncInfo) func(ast.Node) bool {
			return w.callPred(fi, "(core/validators.ReceiverValidator).validateParamsCombinations")
		}, "validateParamsCombinations",
		func(fi *FuncInfo) []skipSpec {
			return []skipSpec{
				{Cond: w.condCalls(fi, "(core/metadata.TypeUsageMeta).IsContext"), Pol: true, Desc: "context parameter"},
				{Cond: w.nilTestOf(fi, "*definitions.ParamPassedIn"), Pol: true, Desc: "no passed-in annotation (reported by the link validator)"},
			}
		}, true, "every non-context parameter with a location is checked against the others (one body, no body+form)")
	ruleResultReturned(c, r, clause, vp, "(core/validators.ReceiverValidator).validateParamsCombinations")
	ruleHelperShape(c, r, clause, helperShape{Fn: "(core/validators.ReceiverValidator).validateParamsCombinations",
		AllowedCalls: []string{"core/validators/diagnostics.NewErrorDiagnostic"},
		MustFields:   []string{"PassedIn"}, MustConsts: []string{"Body", "Form"},
		Why: "a second body, a body beside a form and a form beside a body are errors"})
}

// sliceReaches: `target` is in the backward slice of v.
func sliceReaches(v, target ssa.Value) bool {
	seen := map[ssa.Value]bool{}
	var walk func(x ssa.Value, d int) bool
	walk = func(x ssa.Value, d int) bool {
		if x == nil || seen[x] || d > 60 {
			return false
		}
		seen[x] = true
		if x == target {
			return true
		}
		if al, ok := x.(*ssa.Alloc); ok {
			for _, sv := range storedInto(al, 0) {
				if walk(sv, d+1) {
					return true
				}
			}
			return false
		}
		if ins, ok := x.(ssa.Instruction); ok {
			for _, op := range ins.Operands(nil) {
				if *op != nil && walk(*op, d+1) {
					return true
				}
			}
		}
		return false
	}
	return walk(v, 0)
}

// ruleResultKept: fn calls callee on every non-failing path and the call's result (#idx)
// is passed to a call whose callee name has prefix keepPrefix.
func ruleResultKept(c *Ctx, r *Report, clause, fnKey, callee string, idx int, keepPrefix string) {
	fi := need(c, r, clause, fnKey)
	if fi == nil {
		return
	}
	w := c.W
	sites, viol := w.mustPassCall(fi.SSA, nameIs(callee), callee)
	for _, cl := range callsIn(fi.SSA, false, nameIs(callee)) {
		v := cl.Value()
		kept := false
		for _, keep := range callsIn(fi.SSA, false, func(n string) bool { return strings.HasPrefix(n, keepPrefix) }) {
			args := keep.Common().Args
			if sliceReaches(args[len(args)-1], v) {
				kept = true
				sites = append(sites, w.pos(keep.Pos()))
			}
		}
		if !kept && viol == "" {
			viol = fmt.Sprintf("%s: the diagnostics returned by %s are dropped (never added to the entity)", w.pos(cl.Pos()), callee)
		}
	}
	r.add(clause, "mustcall", fnKey+"->keeps("+callee+")", fnKey+" calls "+callee+" on every path and keeps its diagnostics", []string{fnKey, callee}, sites, viol)
}

// ruleResultReturned: fn calls callee and the call's result is part of what fn returns.
func ruleResultReturned(c *Ctx, r *Report, clause, fnKey, callee string) {
	fi := need(c, r, clause, fnKey)
	if fi == nil {
		return
	}
	w := c.W
	calls := callsIn(fi.SSA, false, nameIs(callee))
	var sites []string
	viol := ""
	if len(calls) == 0 {
		viol = fmt.Sprintf("%s does not call %s", fnKey, callee)
	}
	for _, cl := range calls {
		sites = append(sites, w.pos(cl.Pos()))
		reaches := false
		for _, ex := range exitsOf(fi.SSA) {
			if ex.Ret == nil || len(ex.Ret.Results) == 0 {
				continue
			}
			if sliceReaches(ex.Ret.Results[0], cl.Value()) {
				reaches = true
			}
		}
		if !reaches {
			viol = fmt.Sprintf("%s: the result of %s does not reach %s's return value (its diagnostics are dropped)", w.pos(cl.Pos()), callee, fnKey)
		}
	}
	r.add(clause, "mustcall", fnKey+"->returns("+callee+")", fnKey+" calls "+callee+" and returns its diagnostics", []string{fnKey, callee}, sites, viol)
}

func checkC10Tables(c *Ctx, r *Report) {
	w := c.W
	// annotation constants
	annPkg := w.pkg("core/annotations")
	var annConsts []string
	var sites []string
	if annPkg != nil {
		scope := annPkg.Types.Scope()
		for _, n := range scope.Names() {
			if cst, ok := scope.Lookup(n).(*types.Const); ok && strings.HasPrefix(n, "GleeceAnnotation") {
				annConsts = append(annConsts, constString(cst.Val()))
				sites = append(sites, w.pos(cst.Pos()))
			}
		}
	}
	sort.Strings(annConsts)
	keysCfg, pos := w.globalMapKeys("core/validators/configuration", "ValidatorConfigMap")
	ruleSetEqual(c, r, "C10.c", "ValidatorConfigMap-keys==GleeceAnnotation*", "every annotation constant has a validator definition and vice versa (an annotation without a definition is reported 'unknown'; a definition without a constant is dead)", "annotations.GleeceAnnotation* constants", annConsts, "configuration.ValidatorConfigMap keys", keysCfg, append(sites, w.pos(pos)))

	// classifier labels vs GetParamPassedIn labels
	var classify, passedIn []string
	var s2 []string
	if fi := need(c, r, "C10.c", "core/validators.classifyAttributes"); fi != nil {
		labs, ps := w.dispatchLabels(fi, func(tag ast.Expr) bool {
			// the attribute's name itself (a selector, or a local/parameter holding it), not something computed from it
			a := w.exprAtoms(fi, tag)
			return a.Fields["core/annotations.Attribute.Name"] && !a.Calls["strings.ToLower"] && !a.Ops["=="] && !a.Ops["!="]
		})
		for _, l := range labs {
			if l != "Route" {
				classify = append(classify, strings.ToLower(l))
			}
		}
		for _, p := range ps {
			s2 = append(s2, w.pos(p))
		}
	}
	if fi := need(c, r, "C10.c", "core/metadata.GetParamPassedIn"); fi != nil {
		{
			// the lower-cased attribute name (the call itself, or a local holding it)
			isLowered := func(tag ast.Expr) bool {
				a := w.exprAtoms(fi, tag)
				return a.Calls["strings.ToLower"] && a.Fields["core/annotations.Attribute.Name"]
			}
			labs, ps := w.dispatchLabels(fi, isLowered)
			passedIn = append(passedIn, labs...)
			for _, p := range ps {
				s2 = append(s2, w.pos(p))
			}
		}
		// every PassedIn* constant is produced by some arm
		want := values(w.constsOfType(w.lookupType("definitions", "ParamPassedIn")))
		var produced []string
		for _, ex := range exitsOf(fi.SSA) {
			if ex.Ret != nil && ex.Kind != exitFailure {
				for _, ov := range w.resultConstants(ex.Ret.Results[0]) {
					produced = append(produced, ov)
				}
			}
		}
		ruleSetEqual(c, r, "C10.c", "GetParamPassedIn-results==PassedIn*", "the location switch produces exactly the declared locations", "definitions.PassedIn* constants", want, "GetParamPassedIn success results", dedupSorted(produced), []string{w.pos(fi.Decl.Pos())})
	}
	ruleSetEqual(c, r, "C10.c", "classifyAttributes-labels==GetParamPassedIn-labels", "the link validator classifies exactly the parameter annotations the reducer understands", "classifyAttributes parameter labels (lower-cased)", dedupSorted(classify), "GetParamPassedIn labels", dedupSorted(passedIn), s2)

	// MutuallyExclusive symmetric
	if p := w.pkg("core/validators/configuration"); p != nil {
		excl := map[string][]string{}
		var s3 []string
		for _, f := range p.Syntax {
			ast.Inspect(f, func(n ast.Node) bool {
				kv, ok := n.(*ast.KeyValueExpr)
				if !ok {
					return true
				}
				cl, ok := kv.Value.(*ast.CompositeLit)
				if !ok {
					return true
				}
				ktv := p.TypesInfo.Types[kv.Key]
				if ktv.Value == nil {
					return true
				}
				for _, el := range cl.Elts {
					if ikv, ok := el.(*ast.KeyValueExpr); ok {
						if id, ok := ikv.Key.(*ast.Ident); ok && id.Name == "MutuallyExclusive" {
							if lst, ok := ikv.Value.(*ast.CompositeLit); ok {
								for _, e := range lst.Elts {
									if tv := p.TypesInfo.Types[e]; tv.Value != nil {
										excl[constString(ktv.Value)] = append(excl[constString(ktv.Value)], constString(tv.Value))
										s3 = append(s3, w.pos(e.Pos()))
									}
								}
							}
						}
					}
				}
				return true
			})
		}
		viol := ""
		for k, vs := range excl {
			for _, v := range vs {
				found := false
				for _, back := range excl[v] {
					if back == k {
						found = true
					}
				}
				if !found {
					viol = fmt.Sprintf("@%s excludes @%s but not vice versa: the combination is only rejected in one annotation order", k, v)
				}
			}
		}
		if len(excl["Body"]) == 0 || len(excl["FormField"]) == 0 {
			viol = "Body and FormField are not declared mutually exclusive"
		}
		o := r.add("C10.c", "setagree", "ValidatorConfigMap:MutuallyExclusive-symmetric", "never a body together with form fields, whichever is written first", []string{"configuration.ValidatorConfigMap"}, s3, viol)
		o.NonTrivial = true
	}
	// AllowsMultiple false for Body (at most one body)
	if p := w.pkg("core/validators/configuration"); p != nil {
		viol := "Body definition not found"
		var s4 []string
		for _, f := range p.Syntax {
			ast.Inspect(f, func(n ast.Node) bool {
				kv, ok := n.(*ast.KeyValueExpr)
				if !ok {
					return true
				}
				if tv := p.TypesInfo.Types[kv.Key]; tv.Value == nil || constString(tv.Value) != "Body" {
					return true
				}
				cl, ok := kv.Value.(*ast.CompositeLit)
				if !ok {
					return true
				}
				for _, el := range cl.Elts {
					if ikv, ok := el.(*ast.KeyValueExpr); ok {
						if id, ok := ikv.Key.(*ast.Ident); ok && id.Name == "AllowsMultiple" {
							s4 = append(s4, w.pos(ikv.Pos()))
							if tv := p.TypesInfo.Types[ikv.Value]; tv.Value != nil && tv.Value.String() == "false" {
								viol = ""
							} else {
								viol = "@Body allows multiple instances"
							}
						}
					}
				}
				return true
			})
		}
		r.add("C10.c", "setagree", "ValidatorConfigMap:Body-single", "at most one @Body per route", []string{"configuration.ValidatorConfigMap"}, s4, viol)
	}
	// verb tables
	sup, p1 := w.globalMapKeys("definitions", "routeSupportedHttpVerbs")
	all, p2 := w.globalMapKeys("definitions", "validHttpVerbs")
	ruleSubset(c, r, "C10.c", "routeSupportedHttpVerbs⊆validHttpVerbs", "supported verbs are valid verbs", "routeSupportedHttpVerbs", sup, "validHttpVerbs", all, []string{w.pos(p1), w.pos(p2)})
	if fi := need(c, r, "C10.c", "(*core/validators.CommonValidator).validateMethodAttribute"); fi != nil {
		viol := ""
		var sites []string
		// nil (accept) only under IsValidRouteHttpVerb true
		for _, ex := range exitsOf(fi.SSA) {
			if ex.Ret == nil {
				continue
			}
			sites = append(sites, w.pos(retPos(ex)))
			if isNilConst(ex.Ret.Results[0]) {
				ok := false
				for _, f := range dominatingFacts(ex.Block) {
					cnd, pol := unwrapNot(f.Cond, f.Pol)
					if pol && sliceOf(cnd).Calls["definitions.IsValidRouteHttpVerb"] {
						ok = true
					}
				}
				if !ok {
					viol = fmt.Sprintf("%s: a @Method value is accepted without IsValidRouteHttpVerb answering true", w.pos(retPos(ex)))
				}
			}
		}
		r.add("C10.c", "guardedby", fi.Key+":accept-iff-supported", "a verb is accepted only if it is in routeSupportedHttpVerbs", []string{fi.Key}, sites, viol)
	}
	checkVerbTestedAsWritten(c, r, "C10.c")
	// which parameters are exempt from linking and from the primitive-only rule: exactly Go's context.Context
	checkIsContextExact(c, r, "C10.b")
	if fi := need(c, r, "C10.c", "definitions.IsValidRouteHttpVerb"); fi != nil {
		a := newAtoms()
		for _, ex := range exitsOf(fi.SSA) {
			if ex.Ret != nil {
				backSlice(ex.Ret.Results[0], a, map[ssa.Value]bool{}, 0)
			}
		}
		viol := ""
		if !a.Globals["definitions.routeSupportedHttpVerbs"] {
			viol = "IsValidRouteHttpVerb does not consult routeSupportedHttpVerbs"
		}
		r.add("C10.c", "fieldflow", fi.Key+":table", "IsValidRouteHttpVerb is a lookup in routeSupportedHttpVerbs", []string{fi.Key}, []string{w.pos(fi.Decl.Pos())}, viol)
	}
	checkExactMembership(c, r, "C10.c")
	// uniqueness of parameter references is keyed by the referenced parameter (the annotation's value)
	const vuv = "(*core/validators.CommonValidator).validateUniqueValue"
	if fi := need(c, r, "C10.d", vuv); fi != nil {
		viol := ""
		var sites []string
		n := 0
		check := func(k ssa.Value, pos token.Pos) {
			n++
			sites = append(sites, w.pos(pos))
			a := sliceOf(k)
			onlyValue := len(a.Calls) == 0 && len(a.Consts) == 0
			for f := range a.Fields {
				if f.Name() != "Value" {
					onlyValue = false
				}
			}
			if !a.hasFieldNamed("Value") || !onlyValue {
				viol = fmt.Sprintf("%s: the `each parameter is referenced by one annotation` bookkeeping is keyed by something other than the annotation's value (the referenced parameter): %s - two annotations binding the same parameter under different aliases are accepted, and two parameters sharing an alias are rejected", w.pos(pos), a)
			}
		}
		allInstrs(fi.SSA, false, func(_ *ssa.Function, _ *ssa.BasicBlock, _ int, ins ssa.Instruction) {
			switch x := ins.(type) {
			case *ssa.Lookup:
				if _, isMap := x.X.Type().Underlying().(*types.Map); isMap {
					check(x.Index, x.Pos())
				}
			case *ssa.MapUpdate:
				check(x.Key, x.Pos())
			}
		})
		if n < 2 {
			viol = fmt.Sprintf("expected a lookup and an update of the uniqueness table in %s, found %d", vuv, n)
		}
		r.add("C10.d", "fieldflow", vuv+":keyed-by-referenced-parameter", "a parameter may be referenced by at most one parameter annotation: the table is keyed by the annotation value", []string{vuv}, sites, viol)
	}
}

func checkC10Linking(c *Ctx, r *Report) {
	w := c.W
	// (→) the URL parameters are extracted from the FULL template (controller prefix + method route)
	const ctor = "core/validators.NewAnnotationLinkValidator"
	if fi := need(c, r, "C10.d", ctor); fi != nil {
		viol := ""
		var sites []string
		calls := callsIn(fi.SSA, false, nameIs("core/validators.extractUrlParams"))
		if len(calls) != 1 {
			viol = fmt.Sprintf("expected one extractUrlParams call in %s, found %d", ctor, len(calls))
		}
		for _, cl := range calls {
			sites = append(sites, w.pos(cl.Pos()))
			a := sliceOf(cl.Common().Args[0])
			dependsOnController := false
			for p := range a.Params {
				if strings.Contains(p.Type().String(), "ControllerMeta") {
					dependsOnController = true
				}
			}
			if a.hasFieldNamed("Struct") || a.hasFieldNamed("parentController") {
				dependsOnController = true
			}
			if !dependsOnController {
				viol = fmt.Sprintf("%s: the {names} that must be bound by @Path are extracted from the method's @Route value only; the controller's @Route prefix does not reach extractUrlParams (a controller route /a/{tenant} needs no @Path and is accepted)", w.pos(cl.Pos()))
			}
		}
		o := r.add("C10.d", "fieldflow", ctor+":extractUrlParams(full-template)", "the route template checked against @Path bindings is controller prefix + method route", []string{ctor}, sites, viol)
		o.NonTrivial = true
	}
	// (←) every @Path attribute's effective name (alias or value) is tested against the URL parameters
	const vpa = "(core/validators.AnnotationLinkValidator).validatePathAnnotations"
	ruleEach(c, r, "C10.d", vpa,
		func(fi *FuncInfo) func(ast.Expr) bool {
			return w.rangeOverField(fi, "core/validators.classifiedAttributes.path")
		}, "groupedAttributes.path",
		func(fi *FuncInfo) func(ast.Node) bool {
			info := fi.Pkg.TypesInfo
			return func(n ast.Node) bool {
				cl, ok := n.(*ast.CallExpr)
				if !ok {
					return false
				}
				cn := calleeOfCall(info, cl)
				if !(strings.HasPrefix(cn, "slices.Contains") || strings.HasSuffix(cn, ").Contains") || strings.HasSuffix(cn, ").ContainsOne")) || len(cl.Args) == 0 {
					return false
				}
				recv := cl.Args[0]
				if se, ok := cl.Fun.(*ast.SelectorExpr); ok && info.Selections[se] != nil {
					recv = se.X
				}
				at := w.exprAtoms(fi, recv)
				return at.Fields["core/validators.AnnotationLinkValidator.urlParams"]
			}
		}, "membership test against v.urlParams",
		func(fi *FuncInfo) []skipSpec {
			return []skipSpec{{Cond: w.nilTestOf(fi, "*core/validators/diagnostics.ResolvedDiagnostic"), Pol: false, Desc: "the alias property could not be read (diagnostic emitted)"}}
		}, false,
		"every @Path annotation (with or without a name alias) is checked to name a {parameter} of the route")

	// sibling agreement: what the validator recognises as a {parameter} vs what the generated
	// routers rewrite as a parameter (urlParamRegex in every engine's routes.hbs)
	checkUrlParamExtractors(c, r)

	// duplicates / one-to-one bookkeeping that is in place
	ruleEach(c, r, "C10.d", "(core/validators.AnnotationLinkValidator).validateRoute",
		func(fi *FuncInfo) func(ast.Expr) bool {
			return w.rangeOverField(fi, "core/validators.AnnotationLinkValidator.urlParams")
		}, "v.urlParams",
		func(fi *FuncInfo) func(ast.Node) bool {
			info := fi.Pkg.TypesInfo
			return func(n ast.Node) bool {
				cl, ok := n.(*ast.CallExpr)
				if !ok {
					return false
				}
				cn := calleeOfCall(info, cl)
				if !strings.HasSuffix(cn, ").Contains") {
					return false
				}
				se, ok := cl.Fun.(*ast.SelectorExpr)
				return ok && exprString(se.X) == "referencedParams"
			}
		}, "referencedParams.Contains(urlParam)", nil, false,
		"every {name} of the method route is tested for a matching @Path (by alias or name)")
	ruleEach(c, r, "C10.d", "(core/validators.AnnotationLinkValidator).validateAllReferenced",
		func(fi *FuncInfo) func(ast.Expr) bool {
			return func(e ast.Expr) bool {
				cl, ok := e.(*ast.CallExpr)
				return ok && strings.HasSuffix(calleeOfCall(fi.Pkg.TypesInfo, cl), ").ToSlice")
			}
		}, "funcParamNames",
		func(fi *FuncInfo) func(ast.Node) bool { return w.appendTo(fi, w.resultSlice(fi)) }, "append(diags, unreferenced)",
		func(fi *FuncInfo) []skipSpec {
			return []skipSpec{
				{Cond: w.commaOkOf(fi, "lookup", "map[string]core/annotations.Attribute"), Pol: true, Desc: "parameter was referenced"},
				{Cond: w.nilTestOf(fi, "*core/metadata.FuncParam"), Pol: true, Desc: "internal inconsistency (cannot happen: names come from the same list)"},
				{Cond: w.commaOkOf(fi, "lookup", "map[string]core/metadata.FuncParam"), Pol: false, Desc: "the same inconsistency, asked of a by-name index of the parameters"},
				{Cond: w.commaOkOf(fi, "lookup", "map[string]*core/metadata.FuncParam"), Pol: false, Desc: "the same inconsistency, asked of a by-name index of the parameters"},
				{Cond: w.condCalls(fi, "(core/metadata.TypeUsageMeta).IsContext"), Pol: true, Desc: "context parameter"},
			}
		}, false,
		"every non-context function parameter that no annotation references yields a diagnostic")
}

func checkC10Severities(c *Ctx, r *Report) {
	w := c.W
	mustBeError := map[string]bool{
		"DiagLinkerRouteMissingPath": true, "DiagLinkerUnreferencedParameter": true, "DiagLinkerMultipleParameterRefs": true,
		"DiagLinkerPathInvalidRef": true, "DiagLinkerDuplicateUrlParam": true, "DiagLinkerDuplicatePathParam": true,
		"DiagAnnotationMutuallyExclusive": true, "DiagAnnotationDuplicateValue": true, "DiagAnnotationUnknown": true,
		"DiagReceiverParamNotPrimitive": true, "DiagReceiverInvalidBody": true,
		"DiagReceiverRetValsInvalidSignature": true, "DiagReceiverRetValsIsNotError": true,
		"DiagFeatureUnsupported": true, "DiagReceiverMissingSecurity": true, "DiagAnnotationValueMustExist": true,
	}
	seen := map[string]int{}
	var sites []string
	viol := ""
	for _, fi := range w.funcsOfPkg("core/validators") {
		info := fi.Pkg.TypesInfo
		w.inspectRegion(fi, func(n ast.Node) bool {
			cl, ok := n.(*ast.CallExpr)
			if !ok {
				return true
			}
			cn := calleeOfCall(info, cl)
			sevIdx, codeIdx := -1, -1
			forced := ""
			switch cn {
			case diagPkg + ".NewDiagnostic":
				codeIdx, sevIdx = 2, 3
			case diagPkg + ".NewErrorDiagnostic":
				codeIdx, forced = 2, "error"
			case diagPkg + ".NewWarningDiagnostic":
				codeIdx, forced = 2, "warning"
			case diagPkg + ".NewInfoDiagnostic", diagPkg + ".NewHintDiagnostic":
				codeIdx, forced = 2, "info"
			case "(*core/validators.CommonValidator).getDiagnosticForAttribute", "(*core/validators.CommonValidator).getDiagnosticForAttributeValue":
				codeIdx, sevIdx = 2, 3
			default:
				return true
			}
			if codeIdx >= len(cl.Args) {
				return true
			}
			// the code operand, or - in a new helper that takes the code as a parameter - the
			// codes its callers pass
			var codeNames []string
			for _, be := range w.boundExprs(w.ownerOf(fi, cl), cl.Args[codeIdx], 0) {
				ast.Inspect(be.Expr, func(m ast.Node) bool {
					if id, ok := m.(*ast.Ident); ok {
						if cst, ok := be.Fi.Pkg.TypesInfo.Uses[id].(*types.Const); ok && strings.HasPrefix(cst.Name(), "Diag") {
							codeNames = append(codeNames, cst.Name())
						}
					}
					return true
				})
			}
			codeName := ""
			for _, cn := range codeNames {
				if mustBeError[cn] {
					codeName = cn
					seen[cn]++
				}
			}
			if codeName == "" {
				return true
			}
			seen[codeName]--
			sev := forced
			if sevIdx >= 0 && sevIdx < len(cl.Args) {
				if tv := info.Types[cl.Args[sevIdx]]; tv.Value != nil {
					if tv.Value.String() == "1" {
						sev = "error"
					} else {
						sev = "non-error(" + tv.Value.String() + ")"
					}
				} else {
					sev = "non-constant"
				}
			}
			// the parameter-passing wrappers themselves (code is a parameter) are skipped
			if codeName == "" {
				return true
			}
			seen[codeName]++
			sites = append(sites, w.pos(cl.Pos()))
			if sev != "error" {
				viol = fmt.Sprintf("%s: diagnostic %s is created with severity %s; the rule it reports must block generation (error severity)", w.pos(cl.Pos()), codeName, sev)
			}
			return true
		})
	}
	for code := range mustBeError {
		if seen[code] == 0 && code != "DiagLinkerDuplicatePathParam" {
			viol = fmt.Sprintf("no diagnostic with code %s is constructed in core/validators any more (rule would pass vacuously)", code)
		}
	}
	o := r.add("C10.e", "fieldflow", "core/validators:error-severity-codes", "the diagnostics for missing/duplicate path references, unreferenced parameters, body+form, non-primitive parameters, invalid return signatures, non-error returns, unsupported verbs and missing security are error-severity", []string{"core/validators"}, sites, viol)
	o.NonTrivial = true
	r.count("error_severity_sites", len(sites))
}

// checkUrlParamExtractors cross-checks the sibling implementations that decide what a URL
// parameter is: validators.extractUrlParams (which {names} need a @Path) and the
// urlParamRegex compiled in every engine's routes.hbs (which {names} the router binds).
// The validator must recognise at least every name the routers bind. Accepted validator
// idioms: a hand-rolled scan for '{' ... '}' (any name), or a regexp whose name class is a
// superset of the routers' class.
func checkUrlParamExtractors(c *Ctx, r *Report) {
	w := c.W
	fi := need(c, r, "C10.d", "core/validators.extractUrlParams")
	if fi == nil {
		return
	}
	var sites []string
	viol := ""
	// router side
	routerClasses := map[string]string{}
	for _, en := range c.T.Order {
		eng := c.T.Engines[en]
		src := eng.Routes.Src
		idx := strings.Index(src, "urlParamRegex = regexp.MustCompile(")
		if idx < 0 {
			continue
		}
		rest := src[idx+len("urlParamRegex = regexp.MustCompile("):]
		if len(rest) == 0 || (rest[0] != '`' && rest[0] != '"') {
			continue
		}
		end := strings.IndexByte(rest[1:], rest[0])
		if end < 0 {
			continue
		}
		pat := rest[1 : 1+end]
		routerClasses[en] = pat
		sites = append(sites, fmt.Sprintf("%s:%d", eng.Routes.File, 1+strings.Count(src[:idx], "\n")))
	}
	// validator side
	info := fi.Pkg.TypesInfo
	var valPat string
	handRolled := false
	w.inspectRegion(fi, func(n ast.Node) bool {
		switch x := n.(type) {
		case *ast.CallExpr:
			cn := calleeOfCall(info, x)
			if (cn == "regexp.MustCompile" || cn == "regexp.Compile") && len(x.Args) == 1 {
				if tv := info.Types[x.Args[0]]; tv.Value != nil {
					valPat = constString(tv.Value)
				}
			}
		case *ast.BinaryExpr:
			if bl, ok := x.Y.(*ast.BasicLit); ok && (bl.Value == "'{'" || bl.Value == "'}'") {
				handRolled = true
			}
		}
		return true
	})
	// a package-level regexp used by the function
	if valPat == "" {
		w.inspectRegion(fi, func(n ast.Node) bool {
			if id, ok := n.(*ast.Ident); ok {
				if v, ok := info.Uses[id].(*types.Var); ok && v.Pkg() != nil && v.Parent() == v.Pkg().Scope() && strings.Contains(v.Type().String(), "regexp.Regexp") {
					if pat, ok := w.globalRegexPattern(v); ok {
						valPat = pat
					}
				}
			}
			return true
		})
	}
	sites = append(sites, w.pos(fi.Decl.Pos()))
	probe := []rune{'a', 'Z', '0', '_', '-'}
	switch {
	case valPat != "":
		vc, ok := braceNameClass(valPat)
		if !ok {
			viol = fmt.Sprintf("%s: cannot determine the {name} class of regexp %q", w.pos(fi.Decl.Pos()), valPat)
		}
		for en, rp := range routerClasses {
			rc, ok2 := braceNameClass(rp)
			if !ok2 {
				viol = fmt.Sprintf("%s routes.hbs: cannot determine the {name} class of urlParamRegex %q", en, rp)
				continue
			}
			for _, ch := range probe {
				if rc(ch) && ok && !vc(ch) {
					viol = fmt.Sprintf("%s: the validator's URL-parameter pattern %q does not accept %q inside {…} although the %s router's urlParamRegex %q binds such names: a route parameter like {user-id} would need no @Path (and a correct alias would be rejected)", w.pos(fi.Decl.Pos()), valPat, string(ch), en, rp)
				}
			}
		}
	case handRolled:
		// scans for '{' and '}' directly: every name is recognised
	default:
		viol = fmt.Sprintf("%s: extractUrlParams uses neither a '{'…'}' scan nor a recognisable regexp", w.pos(fi.Decl.Pos()))
	}
	if len(routerClasses) != len(c.T.Order) {
		viol = "urlParamRegex literal not found in every engine's routes.hbs"
	}
	o := r.add("C10.d", "setagree", "url-param-extractors:validator⊇routers", "every {name} the generated routers bind as a path parameter is a {name} the link validator requires a @Path for", []string{fi.Key, "routes.hbs#urlParamRegex"}, sites, viol)
	o.NonTrivial = true
}

// checkVerbTestedAsWritten (C10.c / C09.g): the value tested against the verb table is the
// @Method value itself - the same string Reduce hands to the generators, which spell it
// into a method name (engine.GET) or a switch arm.
func checkVerbTestedAsWritten(c *Ctx, r *Report, clause string) {
	w := c.W
	const fn = "(*core/validators.CommonValidator).validateMethodAttribute"
	fi := need(c, r, clause, fn)
	if fi == nil {
		return
	}
	viol := ""
	var sites []string
	n := 0
	for _, cl := range callsIn(fi.SSA, false, nameIs("definitions.IsValidRouteHttpVerb", "definitions.IsValidHttpVerb")) {
		n++
		sites = append(sites, w.pos(cl.Pos()))
		a := sliceOf(cl.Common().Args[0])
		if !a.hasFieldNamed("Value") || len(a.Calls) > 0 || len(a.Consts) > 0 {
			viol = fmt.Sprintf("%s: the verb is tested on a transformed copy (%s) of the @Method value while ReceiverMeta.Reduce passes the value as written to the generators: a spelling accepted here (e.g. `get`) becomes `engine.get(` in the gin/echo routers, which does not compile, and has no arm in the 3.1 emitter", w.pos(cl.Pos()), a)
		}
	}
	if n < 1 {
		viol = "validateMethodAttribute no longer consults the verb tables"
	}
	r.add(clause, "fieldflow", fn+":verb-as-written", "the @Method value is validated exactly as it will be emitted", []string{fn}, sites, viol)
	// and Reduce emits it as written
	const rred = "(core/metadata.ReceiverMeta).Reduce"
	if ri := need(c, r, clause, rred); ri != nil {
		rm := w.lookupType("definitions", "RouteMetadata")
		v2 := ""
		var s2 []string
		for _, sk := range w.fieldSinks(ri, rm, "HttpVerb") {
			s2 = append(s2, w.pos(sk.Pos))
			a := w.exprAtoms(ri, sk.Expr)
			for cl := range a.Calls {
				if strings.HasPrefix(cl, "strings.") || strings.HasPrefix(cl, "inlined:strings.") {
					v2 = fmt.Sprintf("%s: Reduce transforms the verb (%s): validation and emission must agree on the spelling", w.pos(sk.Pos), cl)
				}
			}
		}
		if len(s2) == 0 {
			v2 = "no RouteMetadata.HttpVerb sink in ReceiverMeta.Reduce"
		}
		r.add(clause, "fieldflow", rred+":verb-as-written", "the emitted verb is the annotation value", []string{rred}, s2, v2)
	}
}

// checkDiagnosticsAppendOnly (C10.a / C04.d): diagnostics are only ever added - no element of an
// entity's Diagnostics/Children is overwritten or removed.
func checkDiagnosticsAppendOnly(c *Ctx, r *Report, clause string) {
	w := c.W
	ed := w.lookupType("core/validators/diagnostics", "EntityDiagnostic")
	viol := ""
	var sites []string
	n := 0
	for _, fn := range w.SSAFuncs {
		allInstrsLocal(fn, false, func(f *ssa.Function, _ *ssa.BasicBlock, _ int, ins ssa.Instruction) {
			st, ok := ins.(*ssa.Store)
			if !ok {
				return
			}
			// element overwrite: *IndexAddr(load(FieldAddr(ed, Children|Diagnostics)), i) = v
			if ia, ok := st.Addr.(*ssa.IndexAddr); ok {
				// the container itself: d.Children[i] / d.Diagnostics[i]
				var fvs []*types.Var
				if ld, ok := stripTrivial(ia.X).(*ssa.UnOp); ok && ld.Op == token.MUL {
					if fa2, ok := ld.X.(*ssa.FieldAddr); ok {
						if v := structFieldVar(fa2.X.Type(), fa2.Field); v != nil {
							fvs = append(fvs, v)
						}
					}
				}
				for _, fv := range fvs {
					if own, ok2 := derefNamedOwner(fv, ed); ok2 && own && (fv.Name() == "Children" || fv.Name() == "Diagnostics") {
						sites = append(sites, w.pos(st.Pos()))
						viol = fmt.Sprintf("%s: %s overwrites an element of EntityDiagnostic.%s: a diagnostic (or a whole child entity with its errors) that was already recorded is replaced - e.g. a warning-only child attached later wipes the errors of the same receiver, and generation is no longer blocked", w.pos(st.Pos()), fnShort(f), fv.Name())
					}
				}
			}
			if fa, ok := st.Addr.(*ssa.FieldAddr); ok && ed != nil {
				if fv := structFieldVar(fa.X.Type(), fa.Field); fv != nil && (fv.Name() == "Children" || fv.Name() == "Diagnostics") {
					if own, ok2 := derefNamedOwner(fv, ed); ok2 && own {
						n++
						sites = append(sites, w.pos(st.Pos()))
						// the value stored is an append to the same field, a fresh literal, or (AddDiagnostics on an empty entity) the given list
						va := sliceOf(st.Val)
						if !(va.Calls["builtin.append"] || len(va.Fields) == 0) {
							viol = fmt.Sprintf("%s: %s assigns EntityDiagnostic.%s something other than itself extended", w.pos(st.Pos()), fnShort(f), fv.Name())
						}
					}
				}
			}
		})
	}
	if n < 4 {
		viol = fmt.Sprintf("only %d assignments of EntityDiagnostic.Children/Diagnostics found (floor 4)", n)
	}
	r.add(clause, "whowrites", "EntityDiagnostic:append-only", "recorded diagnostics and child entities are never replaced or dropped", []string{"core/validators/diagnostics.EntityDiagnostic"}, sites, viol)
}

// checkDiagnosticsCarrySeverity: a diagnostic without a severity (the zero value) is neither an
// error nor a warning: it does not block generation and is not shown as a warning either. Every
// non-empty ResolvedDiagnostic literal sets Severity, from a parameter or a declared level.
func checkDiagnosticsCarrySeverity(c *Ctx, r *Report, clause string) {
	w := c.W
	viol := ""
	var sites []string
	n := 0
	for _, fi := range w.funcsOfPkgPrefixes("core", "cmd", "generator", "gast", "graphs", "definitions", "infrastructure") {
		if fi.Decl.Body == nil {
			continue
		}
		info := fi.Pkg.TypesInfo
		ast.Inspect(fi.Decl.Body, func(nd ast.Node) bool {
			cl, ok := nd.(*ast.CompositeLit)
			if !ok || len(cl.Elts) == 0 {
				return true
			}
			t := info.TypeOf(cl)
			if t == nil || !strings.HasSuffix(types.TypeString(t, nil), "core/validators/diagnostics.ResolvedDiagnostic") {
				return true
			}
			n++
			sites = append(sites, w.pos(cl.Pos()))
			has := false
			for _, el := range cl.Elts {
				kv, ok := el.(*ast.KeyValueExpr)
				if !ok {
					has = true // positional literal: every field is given
					continue
				}
				if id, ok := kv.Key.(*ast.Ident); ok && id.Name == "Severity" {
					has = true
					if tv, ok := info.Types[kv.Value]; ok && tv.Value != nil && constString(tv.Value) == "0" {
						has = false
					}
				}
			}
			if !has {
				viol = fmt.Sprintf("%s: %s builds a ResolvedDiagnostic without a severity: it is classified as neither error nor warning, so the finding neither blocks generation nor shows up where its rule's documented level says", w.pos(cl.Pos()), fi.Key)
			}
			return true
		})
	}
	if n < 1 {
		viol = "no ResolvedDiagnostic literal found (rule would pass vacuously)"
	}
	r.add(clause, "fieldflow", "ResolvedDiagnostic:severity-always-set", "every diagnostic is built with a severity", []string{"core/validators/diagnostics.NewDiagnostic"}, sites, viol)
}
