package main

import (
	"encoding/json"
	"fmt"
	"go/ast"
	"go/constant"
	"go/token"
	"go/types"
	"os"
	"path/filepath"
	"sort"
	"strings"

	"golang.org/x/tools/go/ssa"
)

func init() {
	register("C18", "Static structural obligations on diagnostics: every range built from a token.Position subtracts one from Line and Column (0-based) and only the text formatter adds it back; every range built from an offset inside a comment adds the comment's/value's absolute start; at every diagnostic constructor call the file operand and the range operand come from the same entity (same root object, or roots tied by a constructor/caller that is itself checked); the annotation-link validator returns only diagnostics not already in its result (global, not adjacent, de-duplication) and ResolvedDiagnostic.Equal compares every field; the error-severity filter lists an entity once. That a range lies inside the construct it concerns, start <= end, and covers the value's text is not decided.", checkC18)
}

const pkgDiag = "core/validators/diagnostics"

// exprRoot finds the object an expression is derived from: "recv.<field>" for a field of
// the method receiver, "param:<name>" for a parameter, resolving locals through their
// single definition / range source (depth-bounded).
func (w *World) exprRoot(fi *FuncInfo, fd *funcDefs, e ast.Expr, depth int) string {
	if depth > bound(8) || e == nil {
		return "?"
	}
	info := fi.Pkg.TypesInfo
	recvName := ""
	if fi.Decl.Recv != nil && len(fi.Decl.Recv.List) == 1 && len(fi.Decl.Recv.List[0].Names) == 1 {
		recvName = fi.Decl.Recv.List[0].Names[0].Name
	}
	switch x := e.(type) {
	case *ast.ParenExpr:
		return w.exprRoot(fi, fd, x.X, depth+1)
	case *ast.StarExpr:
		return w.exprRoot(fi, fd, x.X, depth+1)
	case *ast.UnaryExpr:
		return w.exprRoot(fi, fd, x.X, depth+1)
	case *ast.IndexExpr:
		return w.exprRoot(fi, fd, x.X, depth+1)
	case *ast.SliceExpr:
		return w.exprRoot(fi, fd, x.X, depth+1)
	case *ast.SelectorExpr:
		if id, ok := x.X.(*ast.Ident); ok {
			if id.Name == recvName && recvName != "" {
				if sel := info.Selections[x]; sel != nil && sel.Kind() == types.FieldVal {
					return "recv." + x.Sel.Name
				}
				return "recv"
			}
			if _, isPkg := info.Uses[id].(*types.PkgName); isPkg {
				return "pkg:" + id.Name + "." + x.Sel.Name
			}
		}
		return w.exprRoot(fi, fd, x.X, depth+1)
	case *ast.CallExpr:
		if se, ok := x.Fun.(*ast.SelectorExpr); ok {
			if sel := info.Selections[se]; sel != nil {
				return w.exprRoot(fi, fd, se.X, depth+1) // method call: the receiver operand
			}
		}
		if len(x.Args) > 0 {
			return w.exprRoot(fi, fd, x.Args[0], depth+1)
		}
		return "call"
	case *ast.CompositeLit:
		roots := map[string]bool{}
		for _, el := range x.Elts {
			v := el
			if kv, ok := el.(*ast.KeyValueExpr); ok {
				v = kv.Value
			}
			roots[w.exprRoot(fi, fd, v, depth+1)] = true
		}
		if len(roots) == 1 {
			for k := range roots {
				return k
			}
		}
		return "mixed:" + strings.Join(keys(roots), "+")
	case *ast.Ident:
		if x.Name == recvName && recvName != "" {
			return "recv"
		}
		obj := info.Uses[x]
		if obj == nil {
			obj = info.Defs[x]
		}
		v, ok := obj.(*types.Var)
		if !ok {
			return "const:" + x.Name
		}
		// parameter?
		sig := info.Defs[fi.Decl.Name].Type().(*types.Signature)
		for i := 0; i < sig.Params().Len(); i++ {
			if sig.Params().At(i) == v {
				// a parameter of a new helper stands for what its (first) call site passes
				if sites, exprs, ok := w.argsBoundTo(v); ok && len(sites) > 0 && depth < 6 {
					return w.exprRoot(sites[0].Fi, w.defsOf(sites[0].Fi), exprs[0], depth+1)
				}
				return "param:" + v.Name()
			}
		}
		if rs, ok := fd.rangeOf[v]; ok {
			return w.exprRoot(fi, fd, rs, depth+1)
		}
		if ds := fd.defs[v]; len(ds) > 0 {
			return w.exprRoot(fi, fd, ds[0], depth+1)
		}
		return "local:" + v.Name()
	}
	return "?"
}

func checkC18(c *Ctx, r *Report) {
	defer func() { ruleRegexInventory(c, r, "C18.b", "core/annotations", "core/validators") }()
	w := c.W
	r.NotDecided = append(r.NotDecided, "that a range lies inside the file and inside the comment/declaration it concerns, that start <= end, and that the covered text equals the annotation value (first-occurrence search by strings.Index)", "that code and severity are those documented for each rule (C10 checks the severity tables)", "multibyte column arithmetic")

	// ---- C18.a nothing reported twice
	// a source file is walked once: the files matched by the globs are a set (overlapping globs
	// name a file twice; walking it twice attaches its receivers twice and doubles every
	// diagnostic about them)
	if fi, matched := findMatchedSet(w); fi != nil && matched != nil {
		checkGlobSources(c, r, "C18.a", fi, matched)
	} else {
		r.add("C18.a", "guardedby", "packages-facade:only-glob-matched-files-are-sources", "the glob-matched files are kept as a set and each is a source once", nil, nil, "the glob-matched set (a map keyed by absolute path) was not found in initWithGlobs")
	}
	checkStatusCodeClasses(c, r, "C18.d")
	checkOwnDocWins(c, r, "C18.b")
	checkOffsetsIndexTheirText(c, r, "C18.c", "(core/annotations.Attribute).GetValueRange", "core/validators.getRangeForUrlParam")
	checkSpanEqualsNeedle(c, r, "C18.c", "core/validators.getRangeForUrlParam")
	checkContainerFields(c, r, "C18.a")
	ruleDecisionInputs(c, r, "C18.c", "core/validators")
	// every comment line's own position is asked of the file set (a line guessed from its
	// neighbour's - first+i - is wrong as soon as the group is not one comment per consecutive line)
	for _, f := range []struct{ field, via string }{{"StartLine", "Pos"}, {"StartCol", "Pos"}, {"EndLine", "End"}, {"EndCol", "End"}} {
		ruleFieldFlow(c, r, ffSpec{Clause: "C18.b", Fn: "gast.MapDocListToCommentBlock", Owner: w.lookupType("gast", "CommentPosition"), Field: f.field,
			MustCalls: []string{"(*go/token.FileSet).Position", "(*go/ast.Comment)." + f.via}, AllowedCalls: []string{"builtin.max"}, AllowedFields: []string{"*"}, AllowArith: true,
			Desc: "CommentPosition." + f.field + " = fileSet.Position(comment." + f.via + "()) made 0-based"})
	}
	// the file a diagnostic names comes from the per-file version record: that memo is keyed by the file itself
	checkMemoKeys(c, r, "C18.c")
	const lv = "(core/validators.AnnotationLinkValidator).Validate"
	if fi := need(c, r, "C18.a", lv); fi != nil {
		viol := ""
		var sites []string
		// the returned slice: every append into it is guarded by a negative containment test over the same slice
		var retRoots []ssa.Value
		for _, ex := range exitsOf(fi.SSA) {
			if ex.Ret != nil && len(ex.Ret.Results) == 1 {
				retRoots = append(retRoots, w.originValues(unspill(ex.Ret.Results[0], ex.Block))...)
			}
		}
		nApp := 0
		for _, rv := range retRoots {
			rv = stripTrivial(rv)
			if cl, ok := rv.(*ssa.Call); ok {
				nm := calleeName(cl)
				if strings.HasPrefix(nm, "slices.Compact") {
					viol = fmt.Sprintf("%s: the result is de-duplicated with %s, which removes only ADJACENT equal elements; the list is in check order, not sorted, so the same diagnostic produced by two different checks (with others in between) is reported twice", w.pos(cl.Pos()), nm)
					sites = append(sites, w.pos(cl.Pos()))
					continue
				}
				if nm != "builtin.append" {
					viol = fmt.Sprintf("%s: the result of Validate is produced by %s, not by the containment-guarded accumulation", w.pos(cl.Pos()), nm)
					continue
				}
				nApp++
				sites = append(sites, w.pos(cl.Pos()))
				guarded := false
				for _, f := range guardsOf(cl) {
					cnd, p := unwrapNot(f.Cond, f.Pol)
					if cc, ok := cnd.(*ssa.Call); ok && !p && strings.HasPrefix(calleeName(cc), "slices.ContainsFunc") {
						// over the accumulated result itself
						a0 := stripTrivial(cc.Call.Args[0])
						if sameSliceVar(a0, cl.Call.Args[0]) {
							guarded = true
						}
						// comparing with Equal
						if mc, ok := cc.Call.Args[1].(*ssa.MakeClosure); ok {
							eq := false
							allInstrs(mc.Fn.(*ssa.Function), false, func(_ *ssa.Function, _ *ssa.BasicBlock, _ int, ins ssa.Instruction) {
								if c2, ok := ins.(ssa.CallInstruction); ok && strings.HasSuffix(calleeName(c2), "ResolvedDiagnostic).Equal") {
									eq = true
								}
							})
							if !eq {
								guarded = false
							}
						}
					}
				}
				if !guarded {
					viol = fmt.Sprintf("%s: a diagnostic is appended to the result without a `not already contained (Equal)` test over the result", w.pos(cl.Pos()))
				}
			}
		}
		if nApp == 0 && viol == "" {
			viol = "the result of AnnotationLinkValidator.Validate is not accumulated through a containment-guarded append"
		}
		o := r.add("C18.a", "dedupe", lv+":global-dedupe", "the link validator returns each distinct diagnostic once (containment test against everything kept so far)", []string{lv}, sites, viol)
		o.NonTrivial = true
	}
	{
		// Equal compares every field
		rd := w.lookupType(pkgDiag, "ResolvedDiagnostic")
		const eq = "(*" + pkgDiag + ".ResolvedDiagnostic).Equal"
		fi := need(c, r, "C18.a", eq)
		viol := ""
		var sites []string
		if fi != nil && rd != nil {
			read := map[string]bool{}
			allInstrs(fi.SSA, true, func(_ *ssa.Function, _ *ssa.BasicBlock, _ int, ins ssa.Instruction) {
				switch x := ins.(type) {
				case *ssa.FieldAddr:
					if v := structFieldVar(x.X.Type(), x.Field); v != nil {
						read[v.Name()] = true
					}
				case *ssa.Field:
					if v := structFieldVar(x.X.Type(), x.Field); v != nil {
						read[v.Name()] = true
					}
				}
			})
			st := rd.Underlying().(*types.Struct)
			for i := 0; i < st.NumFields(); i++ {
				sites = append(sites, w.pos(st.Field(i).Pos()))
				if !read[st.Field(i).Name()] {
					viol = fmt.Sprintf("%s: ResolvedDiagnostic.Equal ignores field %s: distinct diagnostics would be merged by the de-duplication", w.pos(st.Field(i).Pos()), st.Field(i).Name())
				}
			}
		}
		r.add("C18.a", "readset", eq+":all-fields", "two diagnostics are equal only if every field agrees", []string{eq}, sites, viol)
	}
	checkSeverityFilter(c, r)

	// ---- C18.b 0-based ranges
	{
		viol := ""
		var sites []string
		n := 0
		for _, p := range w.Pkgs {
			for _, f := range p.Syntax {
				var stack []ast.Node
				ast.Inspect(f, func(nd ast.Node) bool {
					if nd == nil {
						stack = stack[:len(stack)-1]
						return true
					}
					stack = append(stack, nd)
					se, ok := nd.(*ast.SelectorExpr)
					if !ok || (se.Sel.Name != "Line" && se.Sel.Name != "Column") {
						return true
					}
					t := p.TypesInfo.TypeOf(se.X)
					if t == nil || t.String() != "go/token.Position" {
						return true
					}
					n++
					sites = append(sites, w.pos(se.Pos()))
					// parent must be `<sel> - 1`
					par := stack[len(stack)-2]
					be, ok := par.(*ast.BinaryExpr)
					if !ok || be.Op != token.SUB || be.X != ast.Expr(se) || litString0(be.Y) != "1" {
						viol = fmt.Sprintf("%s: a token.Position %s is used without `- 1`: go/token positions are 1-based, gleece ranges 0-based (the text formatter adds the 1 back)", w.pos(se.Pos()), se.Sel.Name)
					}
					return true
				})
			}
		}
		if n < 4 {
			viol = fmt.Sprintf("only %d reads of token.Position.Line/Column found (floor 4: the conversions may be shared by one helper)", n)
		}
		o := r.add("C18.b", "fieldflow", "token.Position->0-based", "every use of a go/token line or column converts it to 0-based", []string{"common.ResolveNodeRange", "gast.MapDocListToCommentBlock", "(*core/arbitrators.AstArbitrator).getRangeForNode"}, sites, viol)
		o.NonTrivial = true
	}
	{
		// only the formatter adds one back
		viol := ""
		var sites []string
		nPlus := 0
		for _, p := range w.Pkgs {
			for _, f := range p.Syntax {
				ast.Inspect(f, func(nd ast.Node) bool {
					be, ok := nd.(*ast.BinaryExpr)
					if !ok || be.Op != token.ADD || litString0(be.Y) != "1" {
						return true
					}
					se, ok := be.X.(*ast.SelectorExpr)
					if !ok {
						return true
					}
					switch se.Sel.Name {
					case "StartLine", "StartCol", "EndLine", "EndCol":
					default:
						return true
					}
					t := p.TypesInfo.TypeOf(se.X)
					if t == nil || !strings.HasSuffix(t.String(), "common.ResolvedRange") {
						return true
					}
					nPlus++
					sites = append(sites, w.pos(be.Pos()))
					if encl := w.enclosingFunc(nil, be.Pos()); encl != "("+pkgDiag+".ClassifiedEntityDiags).formatSeverityClass" {
						viol = fmt.Sprintf("%s: %s turns a 0-based range component back into 1-based outside the text formatter", w.pos(be.Pos()), encl)
					}
					return true
				})
			}
		}
		if nPlus != 2 {
			viol = fmt.Sprintf("expected the text formatter to print StartLine+1 and StartCol+1, found %d such conversions", nPlus)
		}
		r.add("C18.b", "fieldflow", "0-based->text:+1-only-in-formatter", "file:line:col in the error text is the 0-based range plus one, and nothing else converts back", []string{"(" + pkgDiag + ".ClassifiedEntityDiags).formatSeverityClass"}, sites, viol)
	}

	// ---- C18.c relative offsets are rebased on the absolute start
	checkRangeRebase(c, r)

	// ---- C18.d file and range come from the same entity
	checkDiagOperands(c, r)

	// the warning attached to a receiver's entity is built from that very entry
	if fi := need(c, r, "C18.d", "(*core/validators.ApiValidator).adjustDiagsForConflictingEntry"); fi != nil {
		viol := ""
		var sites []string
		fd := w.defsOf(fi)
		n := 0
		w.inspectRegion(fi, func(nd ast.Node) bool {
			call, ok := nd.(*ast.CallExpr)
			if !ok {
				return true
			}
			se, ok := call.Fun.(*ast.SelectorExpr)
			if !ok || se.Sel.Name != "AddDiagnostic" || len(call.Args) != 1 {
				return true
			}
			n++
			sites = append(sites, w.pos(call.Pos()))
			if rt := w.exprRoot(fi, fd, call.Args[0], 0); rt != "param:entry" {
				viol = fmt.Sprintf("%s: the diagnostic attached to the entry's receiver is not built from that entry (root %s): a route-conflict warning then carries the other method's file and @Route range, and the same diagnostic is listed under both receivers", w.pos(call.Pos()), rt)
			}
			return true
		})
		if n < 1 {
			viol = "no AddDiagnostic call in adjustDiagsForConflictingEntry"
		}
		r.add("C18.d", "fieldflow", fi.Key+":diagnostic-of-its-own-entry", "each conflicting method gets a warning located at its own @Route annotation", []string{fi.Key}, sites, viol)
	}
	// the value a diagnostic's range is searched by is the text as written
	checkAnnotationRegex(c, r, "C18.c")
	// every documented diagnostic code can still be produced
	checkDiagCodesLive(c, r)

	// a range is a pair of positions: its columns are never ordered across lines on their own
	{
		viol := ""
		var sites []string
		rrT := w.lookupType("common", "ResolvedRange")
		for _, fn := range w.SSAFuncs {
			allInstrsLocal(fn, false, func(f *ssa.Function, _ *ssa.BasicBlock, _ int, ins ssa.Instruction) {
				st, ok := ins.(*ssa.Store)
				if !ok {
					return
				}
				fa, ok := st.Addr.(*ssa.FieldAddr)
				if !ok {
					return
				}
				fv := structFieldVar(fa.X.Type(), fa.Field)
				if fv == nil || (fv.Name() != "StartCol" && fv.Name() != "EndCol") {
					return
				}
				if own, ok2 := derefNamedOwner(fv, rrT); !ok2 || !own {
					return
				}
				cl, ok := stripTrivial(st.Val).(*ssa.Call)
				if !ok {
					return
				}
				if nm := calleeName(cl); nm == "builtin.min" || nm == "builtin.max" {
					// max(x, 0) clamps are fine
					for _, a := range cl.Call.Args {
						if k, isK := a.(*ssa.Const); isK && k.Value != nil {
							return
						}
					}
					sites = append(sites, w.pos(st.Pos()))
					viol = fmt.Sprintf("%s: %s takes the %s of columns that belong to different positions: a column only orders positions on the same line, so the resulting range can end beyond the last line it covers", w.pos(st.Pos()), fnShort(f), nm)
				}
			})
		}
		if len(sites) == 0 {
			sites = append(sites, "gleece:0")
		}
		r.add("C18.c", "fieldflow", "ResolvedRange:no-independent-column-minmax", "start and end of a range are taken from positions, never assembled component-wise by min/max", []string{"common.ResolvedRange"}, sites, viol)
	}
}

func litString0(e ast.Expr) string {
	if bl, ok := e.(*ast.BasicLit); ok {
		return bl.Value
	}
	return ""
}

func sameSliceVar(a, b ssa.Value) bool {
	a, b = stripTrivial(a), stripTrivial(b)
	if a == b {
		return true
	}
	// both are phis/loads of the same accumulated variable: compare leaf sets loosely
	la, lb := phiLeaves(a), phiLeaves(b)
	for _, x := range la {
		for _, y := range lb {
			if x == y {
				return true
			}
		}
	}
	// one is the phi that merges the other's append result
	if pa, ok := a.(*ssa.Phi); ok {
		for _, e := range pa.Edges {
			if cl, ok := e.(*ssa.Call); ok && len(cl.Call.Args) > 0 && stripTrivial(cl.Call.Args[0]) == a {
				return sameSliceVar(a, b) || true
			}
		}
	}
	return false
}

// checkSeverityFilter: GetDiagnosticsWithSeverity lists an entity once.
func checkSeverityFilter(c *Ctx, r *Report) {
	w := c.W
	const fn = pkgDiag + ".GetDiagnosticsWithSeverity"
	fi := need(c, r, "C18.a", fn)
	if fi == nil {
		return
	}
	viol := ""
	var sites []string
	// an append of the entity inside a loop over that entity's own Diagnostics, with no break after it,
	// appends it once per matching diagnostic
	w.inspectRegion(fi, func(n ast.Node) bool {
		rs, ok := n.(*ast.RangeStmt)
		if !ok {
			return true
		}
		se, ok := rs.X.(*ast.SelectorExpr)
		if !ok || se.Sel.Name != "Diagnostics" {
			return true
		}
		ent := exprString(se.X)
		ast.Inspect(rs.Body, func(m ast.Node) bool {
			as, ok := m.(*ast.AssignStmt)
			if !ok || len(as.Rhs) != 1 {
				return true
			}
			cl, ok := as.Rhs[0].(*ast.CallExpr)
			if !ok || len(cl.Args) != 2 {
				return true
			}
			if id, ok := cl.Fun.(*ast.Ident); !ok || id.Name != "append" {
				return true
			}
			if exprString(cl.Args[1]) != ent {
				return true
			}
			sites = append(sites, w.pos(cl.Pos()))
			// is there a break/return right after in the same block?
			leaves := false
			ast.Inspect(rs.Body, func(k ast.Node) bool {
				if b, ok := k.(*ast.BranchStmt); ok && b.Tok == token.BREAK {
					leaves = true
				}
				return true
			})
			if !leaves {
				viol = fmt.Sprintf("%s: entity `%s` is appended once per matching diagnostic (and, carrying its children, again through the recursive call on those children): every line of an entity with N errors is printed N times in the command's error text", w.pos(cl.Pos()), ent)
			}
			return true
		})
		return true
	})
	if len(sites) == 0 {
		// other shapes: accept when the append is not under a loop over .Diagnostics at all
		sites = append(sites, w.pos(fi.Decl.Pos()))
	}
	o := r.add("C18.a", "dedupe", fn+":entity-once", "the error-severity filter lists each entity once, so the error text prints each diagnostic once", []string{fn}, sites, viol)
	o.NonTrivial = true
}

// checkRangeRebase: in functions that compute a range from an offset inside a comment
// (strings.Index / rune counts), StartCol and EndCol must add an absolute start column
// and the lines must be copied from an absolute position.
func checkRangeRebase(c *Ctx, r *Report) {
	w := c.W
	rr := w.extType(modPath+"/common", "ResolvedRange")
	if rr == nil {
		rr = w.lookupType("common", "ResolvedRange")
	}
	fns := []string{"core/validators.getRangeForUrlParam", "(core/annotations.Attribute).GetValueRange", "core/annotations.getPropertiesRange"}
	for _, k := range fns {
		fi := need(c, r, "C18.c", k)
		if fi == nil {
			continue
		}
		viol := ""
		var sites []string
		n := 0
		for _, fld := range []string{"StartLine", "StartCol", "EndLine", "EndCol"} {
			for _, sk := range w.fieldSinks(fi, rr, fld) {
				n++
				sites = append(sites, w.pos(sk.Pos))
				a := w.exprAtoms(fi, sk.Expr)
				abs := false
				for f := range a.Fields {
					if strings.HasSuffix(f, ".StartLine") || strings.HasSuffix(f, ".EndLine") || strings.HasSuffix(f, ".StartCol") || strings.HasSuffix(f, ".EndCol") {
						abs = true
					}
				}
				// getPropertiesRange delegates to byteOffsetToLineCol(text, off, startLine, startCol)
				if a.hasCall("core/annotations.byteOffsetToLineCol") {
					abs = a.Fields["gast.CommentPosition.StartLine"] && a.Fields["gast.CommentPosition.StartCol"]
				}
				if !abs {
					viol = fmt.Sprintf("%s: %s.%s is computed from an offset inside the comment text without adding the comment's absolute position: the range points at the wrong column (relative to the start of the comment, not of the line)", w.pos(sk.Pos), k, fld)
				}
				isCol := strings.HasSuffix(fld, "Col")
				if isCol && !a.hasCall("core/annotations.byteOffsetToLineCol") {
					colBase := false
					for f := range a.Fields {
						if strings.HasSuffix(f, ".StartCol") || strings.HasSuffix(f, ".EndCol") {
							colBase = true
						}
					}
					if !colBase {
						viol = fmt.Sprintf("%s: %s.%s has no absolute column base", w.pos(sk.Pos), k, fld)
					}
				}
			}
		}
		// columns are rune counts: an offset into the comment text reaches a column only through
		// utf8.RuneCountInString / the rune-aware byteOffsetToLineCol
		for _, fld := range []string{"StartCol", "EndCol"} {
			for _, sk := range w.fieldSinks(fi, rr, fld) {
				a := w.exprAtoms(fi, sk.Expr)
				if !a.hasCall("unicode/utf8.RuneCountInString") && !a.hasCall("core/annotations.byteOffsetToLineCol") {
					viol = fmt.Sprintf("%s: %s.%s is computed from byte offsets into the comment text without counting runes (utf8.RuneCountInString / byteOffsetToLineCol): with multibyte characters before or inside the token the range overshoots it and can run past the end of the line", w.pos(sk.Pos), k, fld)
				}
			}
		}
		if n < 4 {
			viol = fmt.Sprintf("expected the four components of a ResolvedRange to be assigned in %s, found %d", k, n)
		}
		o := r.add("C18.c", "fieldflow", k+":absolute-base", k+": a range computed from an offset inside the comment is rebased on the comment's/value's absolute start", []string{k}, sites, viol)
		o.NonTrivial = true
	}
}

// checkDiagOperands: at each diagnostic constructor call site the file and the range
// operand have the same root, or roots tied per the table below.
func checkDiagOperands(c *Ctx, r *Report) {
	w := c.W
	// ties: roots that denote the same entity inside methods of one type, with the fact that ties them
	ties := map[string][][2]string{
		"core/validators.AnnotationLinkValidator": {{"recv.receiver", "recv.groupedAttributes"}, {"recv.receiver", "param:<attribute>"}},
		"core/validators.ReceiverValidator":       {{"param:receiver", "param:param"}, {"recv.receiver", "param:param"}}, // (the validator's own receiver field is the receiver under validation - what every caller passed)
		"core/validators.CommonValidator":         {{"recv.holder", "param:attribute"}},
		"core/validators.getDiagForRetSig":        {},
	}
	type site struct {
		pos, fn, file, rng string
	}
	var all []site
	weighted := 0
	viol := ""
	for _, cl := range w.callersOf(func(n string) bool {
		return strings.HasPrefix(n, pkgDiag+".New") && strings.HasSuffix(n, "Diagnostic") && n != pkgDiag+".NewEntityDiagnostic"
	}) {
		fnk := fnShort(cl.Parent())
		if strings.HasPrefix(fnk, pkgDiag+".") {
			continue
		}
		fi := w.fn(fnk)
		if fi == nil {
			viol = fmt.Sprintf("%s: enclosing function %s not found", w.pos(cl.Pos()), fnk)
			continue
		}
		var call *ast.CallExpr
		w.inspectRegion(fi, func(n ast.Node) bool {
			if ce, ok := n.(*ast.CallExpr); ok && ce.Lparen == cl.Pos() {
				call = ce
			}
			return true
		})
		if call == nil || len(call.Args) < 4 {
			viol = fmt.Sprintf("%s: constructor call not found in the syntax tree", w.pos(cl.Pos()))
			continue
		}
		fi = w.ownerOf(fi, call) // the function the call is written in (possibly a new helper of fnk)
		fd := w.defsOf(fi)
		fr := w.exprRoot(fi, fd, call.Args[0], 0)
		rg := w.exprRoot(fi, fd, call.Args[len(call.Args)-1], 0)
		// a parameter of type annotations.Attribute is "an attribute handed in by the caller" whatever its name
		normAttr := func(root string) string {
			if !strings.HasPrefix(root, "param:") {
				return root
			}
			sig := fi.Obj.Type().(*types.Signature)
			for i := 0; i < sig.Params().Len(); i++ {
				pv := sig.Params().At(i)
				if "param:"+pv.Name() == root {
					if nt, ok := derefNamed(pv.Type()); ok && nt.Obj().Name() == "Attribute" {
						return "param:<attribute>"
					}
				}
			}
			return root
		}
		if strings.Contains(fnk, "AnnotationLinkValidator") {
			fr, rg = normAttr(fr), normAttr(rg)
		}
		all = append(all, site{w.pos(cl.Pos()), fnk, fr, rg})
		weighted += w.siteWeight(cl)
		// the file named is the file the entity's comment was read from (the holder's FileName()):
		// a path taken from somewhere else (the file version of a type's declaration, say) names
		// another file than the one the range was measured in
		// (or the entity's own FVersion.Path next to its own Range - but never the file version
		// kept in a TypeUsageMeta, which is the file the *type* is declared in)
		fileOK := false
		for _, be := range w.boundExprs(fi, call.Args[0], 0) {
			at := w.exprAtoms(be.Fi, be.Expr)
			for cn := range at.Calls {
				if strings.HasSuffix(strings.TrimPrefix(cn, "inlined:"), "core/annotations.AnnotationHolder).FileName") {
					fileOK = true
				}
			}
			if at.Fields["core/metadata.SymNodeMeta.FVersion"] {
				viaTypeUsage := false
				for fld := range at.Fields {
					if strings.HasSuffix(fld, ".Type") && strings.HasPrefix(fld, "core/metadata.") {
						viaTypeUsage = true
					}
				}
				if !viaTypeUsage {
					fileOK = true
				}
			}
		}
		if !fileOK {
			viol = fmt.Sprintf("%s: in %s the diagnostic's file is neither an annotation holder's FileName() nor the entity's own FVersion.Path: a path obtained another way (the file version kept with a type usage is the file the type is declared in) can be another file than the one the range lies in", w.pos(cl.Pos()), fnk)
		}
		if fr == rg {
			continue
		}
		owner := hostParts(fnk)[0]
		if i := strings.Index(owner, ")."); i > 0 {
			owner = strings.TrimPrefix(strings.TrimPrefix(owner[:i], "("), "*")
		}
		tied := false
		for _, t := range ties[owner] {
			if (t[0] == fr && t[1] == rg) || (t[1] == fr && t[0] == rg) {
				tied = true
			}
		}
		if !tied {
			viol = fmt.Sprintf("%s: in %s the diagnostic's file comes from `%s` but its range from `%s`: when the two live in different files (a receiver declared in another file than its controller, an annotation of another entity) the diagnostic points at the wrong place", w.pos(cl.Pos()), fnk, fr, rg)
		}
	}
	sort.Slice(all, func(i, j int) bool { return posLess(all[i].pos, all[j].pos) })
	var sites []string
	for _, s := range all {
		sites = append(sites, s.pos)
	}
	if weighted < 20 {
		viol = fmt.Sprintf("only %d diagnostic constructor call sites found (floor 20)", weighted)
	}
	o := r.add("C18.d", "fieldflow", "diagnostic:file~range-same-entity", fmt.Sprintf("at each of the %d diagnostic constructor call sites the file and range operands derive from the same entity", len(all)), []string{pkgDiag + ".New*Diagnostic"}, sites, viol)
	o.NonTrivial = true

	// the ties themselves
	// (1) AnnotationLinkValidator: receiver and groupedAttributes both come from the constructor's recv
	if fi := need(c, r, "C18.d", "core/validators.NewAnnotationLinkValidator"); fi != nil {
		alv := w.lookupType("core/validators", "AnnotationLinkValidator")
		v := ""
		var ss []string
		fd := w.defsOf(fi)
		for _, f := range []string{"receiver", "groupedAttributes", "funcParamNames"} {
			sk := w.fieldSinks(fi, alv, f)
			if len(sk) == 0 {
				v = "no sink for AnnotationLinkValidator." + f
			}
			for _, s := range sk {
				ss = append(ss, w.pos(s.Pos))
				if rt := w.exprRoot(fi, fd, s.Expr, 0); rt != "param:recv" {
					v = fmt.Sprintf("%s: AnnotationLinkValidator.%s is not derived from the receiver the validator is built for (root %s)", w.pos(s.Pos), f, rt)
				}
			}
		}
		r.add("C18.d", "fieldflow", "tie:AnnotationLinkValidator", "the link validator's receiver, classified attributes and parameter names all describe the one receiver it was built for", []string{fi.Key}, ss, v)
	}
	// (1b) attributes handed to the link validator's helpers are its own classified attributes
	{
		v := ""
		var ss []string
		n := 0
		attrMethods := map[string]int{} // method -> index of its Attribute parameter
		for k, mfi := range w.Funcs {
			// (its methods - or the plain functions of the package they were turned into)
			isOwn := strings.HasPrefix(k, "(core/validators.AnnotationLinkValidator).") || (strings.HasPrefix(k, "core/validators.") && w.isNewName(k))
			if !isOwn || mfi.Obj == nil {
				continue
			}
			sig := mfi.Obj.Type().(*types.Signature)
			for i := 0; i < sig.Params().Len(); i++ {
				if nt, ok := derefNamed(sig.Params().At(i).Type()); ok && nt.Obj().Name() == "Attribute" {
					attrMethods[k] = i
				}
			}
		}
		for _, cl := range w.callersOf(func(nm string) bool {
			_, ok := attrMethods[nm]
			return ok
		}) {
			fnk := fnShort(cl.Parent())
			fi := w.fn(fnk)
			if fi == nil || !strings.Contains(fnk, "core/validators.AnnotationLinkValidator)") {
				continue
			}
			var call *ast.CallExpr
			w.inspectRegion(fi, func(nd ast.Node) bool {
				if ce, ok := nd.(*ast.CallExpr); ok && ce.Lparen == cl.Pos() {
					call = ce
				}
				return true
			})
			ai := attrMethods[calleeName(cl)]
			if call == nil || len(call.Args) <= ai {
				continue
			}
			n++
			ss = append(ss, w.pos(cl.Pos()))
			fi = w.ownerOf(fi, call)
			rt := w.exprRoot(fi, w.defsOf(fi), call.Args[ai], 0)
			if rt != "recv.groupedAttributes" && !strings.HasPrefix(rt, "param:") {
				v = fmt.Sprintf("%s: %s passes an attribute that is not one of the validator's own classified attributes (root %s)", w.pos(cl.Pos()), fnk, rt)
			}
		}
		if n < 2 {
			v = fmt.Sprintf("expected >= 2 calls of attribute helpers of the link validator, found %d", n)
		}
		r.add("C18.d", "fieldflow", "tie:AnnotationLinkValidator(attr)", "attributes handed to the alias helpers are the validator's own", []string{"core/validators.AnnotationLinkValidator"}, ss, v)
	}
	// (2) ReceiverValidator: param is an element of receiver.Params at every call
	{
		v := ""
		var ss []string
		n := 0
		for _, callee := range []string{"(core/validators.ReceiverValidator).validateBodyParam", "(core/validators.ReceiverValidator).validateNonBodyParam"} {
			for _, cl := range w.callersOf(nameIs(callee)) {
				n++
				ss = append(ss, w.pos(cl.Pos()))
				// (by type, not position: the receiver and the parameter operand)
				var recvArg, paramArg ssa.Value
				for _, a := range cl.Common().Args[1:] {
					ts := short(a.Type().String())
					switch {
					case strings.HasSuffix(ts, "core/metadata.ReceiverMeta"):
						recvArg = a
					case strings.HasSuffix(ts, "core/metadata.FuncParam"):
						paramArg = a
					}
				}
				if recvArg == nil || paramArg == nil {
					continue // nothing to tie: where the file then comes from is judged at the constructor call
				}
				ra := stripTrivial(recvArg)
				pa := sliceOf(paramArg)
				okTie := pa.hasFieldNamed("Params") && sliceReaches(paramArg, ra)
				if !okTie {
					v = fmt.Sprintf("%s: %s is called with a parameter that is not an element of the same receiver's Params", w.pos(cl.Pos()), callee)
				}
			}
		}
		if n < 2 {
			v = "expected calls of validateBodyParam/validateNonBodyParam"
		}
		r.add("C18.d", "fieldflow", "tie:ReceiverValidator(receiver,param)", "the parameter checked is one of the receiver's own parameters", []string{"(core/validators.ReceiverValidator).validateParams"}, ss, v)
	}
	// (3) CommonValidator: attributes passed to getDiagnosticForAttribute* come from g.holder
	{
		v := ""
		var ss []string
		n := 0
		for _, cl := range w.callersOf(func(nm string) bool {
			return nm == "(*core/validators.CommonValidator).getDiagnosticForAttribute" || nm == "(*core/validators.CommonValidator).getDiagnosticForAttributeValue"
		}) {
			n++
			ss = append(ss, w.pos(cl.Pos()))
			fnk := fnShort(cl.Parent())
			fi := w.fn(fnk)
			if fi == nil {
				continue
			}
			var call *ast.CallExpr
			w.inspectRegion(fi, func(nd ast.Node) bool {
				if ce, ok := nd.(*ast.CallExpr); ok && ce.Lparen == cl.Pos() {
					call = ce
				}
				return true
			})
			if call == nil {
				continue
			}
			rt := w.exprRoot(fi, w.defsOf(fi), call.Args[0], 0)
			if rt != "recv.holder" && !strings.HasPrefix(rt, "param:") {
				v = fmt.Sprintf("%s: the attribute reported on does not come from the validator's own holder (root %s)", w.pos(cl.Pos()), rt)
			}
		}
		if n < 10 {
			v = fmt.Sprintf("expected >= 10 attribute diagnostics in CommonValidator, found %d", n)
		}
		r.add("C18.d", "fieldflow", "tie:CommonValidator(holder,attribute)", "attribute diagnostics of the common validator concern attributes of its own holder (or an attribute handed in by its caller)", []string{"core/validators.CommonValidator"}, ss, v)
	}
}

// checkDiagCodesLive: a DiagnosticCode constant that no validator references any more means
// the rule it documents is reported under some other code (or not at all).
func checkDiagCodesLive(c *Ctx, r *Report) {
	w := c.W
	unusedOK := map[string]string{}
	if b, err := os.ReadFile(filepath.Join(c.VerifDir, "tables", "diag.json")); err == nil {
		var t struct {
			Unused map[string]string `json:"unused_codes"`
		}
		if json.Unmarshal(b, &t) == nil {
			unusedOK = t.Unused
		}
	}
	dc := w.lookupType(pkgDiag, "DiagnosticCode")
	consts := w.constsOfType(dc)
	used := map[string]bool{}
	for _, p := range w.Pkgs {
		for _, f := range p.Syntax {
			ast.Inspect(f, func(n ast.Node) bool {
				id, ok := n.(*ast.Ident)
				if !ok {
					return true
				}
				if cst, ok := p.TypesInfo.Uses[id].(*types.Const); ok && dc != nil && types.Identical(cst.Type(), dc) {
					used[cst.Name()] = true
				}
				return true
			})
		}
	}
	viol := ""
	var sites []string
	var names []string
	for nme := range consts {
		names = append(names, nme)
	}
	sort.Strings(names)
	for _, nme := range names {
		if used[nme] {
			continue
		}
		if _, ok := unusedOK[nme]; ok {
			continue
		}
		viol = fmt.Sprintf("diagnostic code %s (%q) is declared but no validator produces it any more: the violation it documents is now reported under a different code, or not at all", nme, consts[nme])
	}
	if len(consts) < 30 {
		viol = fmt.Sprintf("only %d DiagnosticCode constants found (floor 30)", len(consts))
	}
	if dc != nil {
		sites = append(sites, w.pos(dc.Obj().Pos()))
	}
	o := r.add("C18.e", "readset", "diagnostic-codes⊆produced", fmt.Sprintf("each of the %d diagnostic codes is referenced by gleece (except the %d reviewed never-used ones)", len(consts), len(unusedOK)), []string{pkgDiag + ".DiagnosticCode"}, sites, viol)
	o.NonTrivial = true
}

// checkStatusCodeClasses: a status-code annotation value fails in one of two documented ways -
// "not a status number at all" (error) and "a number, but not a known code" (warning). Which of
// the two a value gets is decided by the numeric parse; the reducer converts the same text with
// definitions.ConvertToHttpStatus. The validator's numeric test and the reducer's are the same
// parse (function, base, width), so a value is "non-numeric" for the one exactly when it is for
// the other, and the known-code test is given the parsed number.
func checkStatusCodeClasses(c *Ctx, r *Report, clause string) {
	w := c.W
	const val = "(*core/validators.CommonValidator).validateStatusCodeBearingAttribute"
	const conv = "definitions.ConvertToHttpStatus"
	vfi, cfi := need(c, r, clause, val), need(c, r, clause, conv)
	if vfi == nil || cfi == nil {
		return
	}
	var parsesOf func(fn *ssa.Function, depth int, sites *[]string) map[string]bool
	parsesOf = func(fn *ssa.Function, depth int, sites *[]string) map[string]bool {
		out := map[string]bool{}
		allInstrs(fn, true, func(_ *ssa.Function, _ *ssa.BasicBlock, _ int, ins ssa.Instruction) {
			cl, ok := ins.(ssa.CallInstruction)
			if !ok {
				return
			}
			nm := calleeName(cl)
			if strings.HasPrefix(nm, "strconv.") {
				sig := nm + "("
				for i, a := range cl.Common().Args {
					if i == 0 {
						continue
					}
					if k, ok := stripTrivial(a).(*ssa.Const); ok && k.Value != nil {
						sig += constString(k.Value) + ","
					} else {
						sig += "?,"
					}
				}
				out[sig+")"] = true
				*sites = append(*sites, w.pos(cl.Pos()))
				return
			}
			if cf := cl.Common().StaticCallee(); cf != nil && depth < 2 && strings.HasPrefix(nm, "definitions.") && cf.Blocks != nil && !w.isNewFn(cf) {
				for k := range parsesOf(cf, depth+1, sites) {
					out[k] = true
				}
			}
		})
		return out
	}
	var sites []string
	vp, cp := parsesOf(vfi.SSA, 0, &sites), parsesOf(cfi.SSA, 0, &sites)
	viol := ""
	if len(cp) == 0 {
		viol = conv + " no longer parses its argument with a strconv function"
	} else if fmt.Sprint(keys(vp)) != fmt.Sprint(keys(cp)) {
		viol = fmt.Sprintf("%s: the validator decides \"is it a number\" with %v, the conversion used by the reducers with %v: a value the two parse differently (a sign, a value beyond 32 bits) is reported under the wrong rule - as a non-standard code (warning) instead of a non-numeric one (error), or the other way round", w.pos(vfi.Decl.Pos()), keys(vp), keys(cp))
	}
	r.add(clause, "sibling", "status-code:numeric-test==conversion", "the validator's numeric test of a status code is the parse the reducers' conversion uses", []string{val, conv}, sites, viol)

	// the known-code test is asked about the parsed number
	viol = ""
	var s2 []string
	known := callsIn(vfi.SSA, true, func(n string) bool { return n == "definitions.IsValidHttpStatusCode" || n == conv })
	if len(known) == 0 {
		viol = val + " no longer asks definitions.IsValidHttpStatusCode (or the conversion) whether the code is a known one"
	}
	for _, k := range known {
		s2 = append(s2, w.pos(k.Pos()))
		if calleeName(k) != "definitions.IsValidHttpStatusCode" {
			continue
		}
		a := newAtoms()
		backSlice(k.Common().Args[0], a, map[ssa.Value]bool{}, 0)
		if !a.Calls["strconv.ParseUint"] {
			viol = fmt.Sprintf("%s: the number tested for being a known code is not the result of the numeric parse (%s)", w.pos(k.Pos()), sliceOf(k.Common().Args[0]))
		}
	}
	r.add(clause, "fieldflow", val+":known-code(parsed)", "the known-code test is given the number the numeric parse produced", []string{val}, s2, viol)
}

// checkOwnDocWins: an entity's annotations and description come from its own doc comment; the
// comment of the enclosing declaration (`type ( ... )`, or the single-spec `type X …` whose
// comment go/parser attaches to the GenDecl) is consulted only when the entity has none. In the
// functions that pick the comment source, every read of GenDecl.Doc is therefore dominated by
// "the own comment is nil". (Both comments merged, or the block's preferred, give every member
// of a block the block's annotations, and diagnostics that span or repeat across members.)
func checkOwnDocWins(c *Ctx, r *Report, clause string) {
	w := c.W
	for _, fk := range []string{"gast.GetCommentsFromTypeSpec", "(*core/visitors.BaseVisitor).getAnnotations"} {
		fi := need(c, r, clause, fk)
		if fi == nil {
			continue
		}
		viol := ""
		var sites []string
		n := 0
		// edges on which the entity has no comment of its own (its Doc is nil, or there is no entity)
		isOwn := func(v ssa.Value) bool {
			v = stripTrivial(v)
			if ld, ok := v.(*ssa.UnOp); ok && ld.Op == token.MUL {
				if fa2, ok := ld.X.(*ssa.FieldAddr); ok {
					if f2 := structFieldVar(fa2.X.Type(), fa2.Field); f2 != nil && f2.Name() == "Doc" && !strings.HasSuffix(types.TypeString(fa2.X.Type(), nil), "go/ast.GenDecl") {
						return true
					}
				}
			}
			if p, isParam := v.(*ssa.Parameter); isParam {
				ts := types.TypeString(p.Type(), nil)
				return strings.HasSuffix(ts, "go/ast.CommentGroup") || (strings.HasPrefix(ts, "*go/ast.") && !strings.HasSuffix(ts, "go/ast.GenDecl"))
			}
			return false
		}
		for _, f := range w.regionFns(fi.SSA) {
			avoid := map[edge]bool{}
			for _, b := range f.Blocks {
				if len(b.Instrs) == 0 || len(b.Succs) != 2 {
					continue
				}
				ifi, ok := b.Instrs[len(b.Instrs)-1].(*ssa.If)
				if !ok {
					continue
				}
				cnd, pol := unwrapNot(ifi.Cond, true)
				bo, ok := cnd.(*ssa.BinOp)
				if !ok || (bo.Op != token.EQL && bo.Op != token.NEQ) {
					continue
				}
				var subj ssa.Value
				if isNilConst(bo.Y) {
					subj = bo.X
				} else if isNilConst(bo.X) {
					subj = bo.Y
				}
				if subj == nil || !isOwn(subj) {
					continue
				}
				// the successor on which subj == nil
				nilOnTrue := (bo.Op == token.EQL) == pol
				if nilOnTrue {
					avoid[edge{b, b.Succs[0]}] = true
				} else {
					avoid[edge{b, b.Succs[1]}] = true
				}
			}
			reach, _ := reachAvoiding(f, nil, avoid)
			for _, b := range f.Blocks {
				for _, ins := range b.Instrs {
					fa, ok := ins.(*ssa.FieldAddr)
					if !ok {
						continue
					}
					fv := structFieldVar(fa.X.Type(), fa.Field)
					if fv == nil || fv.Name() != "Doc" || !strings.HasSuffix(types.TypeString(fa.X.Type(), nil), "go/ast.GenDecl") {
						continue
					}
					n++
					sites = append(sites, w.pos(fa.Pos()))
					if reach[b] {
						viol = fmt.Sprintf("%s: %s reads the enclosing declaration's comment (GenDecl.Doc) on a path on which the entity's own comment was not found nil: the block's comment then competes with - or replaces, or is merged into - the entity's own", w.pos(fa.Pos()), fk)
					}
				}
			}
		}
		if n == 0 {
			viol = fk + " no longer falls back to the enclosing declaration's comment (GenDecl.Doc): a single `type X struct` whose comment go/parser attaches to the declaration would lose its annotations"
		}
		r.add(clause, "guardedby", fk+":own-doc-wins", "the enclosing declaration's comment is read only when the entity has none of its own", []string{fk}, sites, viol)
	}
}

// checkOffsetsIndexTheirText: an offset found by searching a text (strings.Index and friends)
// is a position in THAT text: where such an offset bounds a slice of a string (`text[:idx]`, the
// prefix whose runes give the column), the string sliced is the string searched. An offset found
// in a suffix or in another copy of the text and applied to the whole measures the wrong prefix.
func checkOffsetsIndexTheirText(c *Ctx, r *Report, clause string, fns ...string) {
	w := c.W
	for _, k := range fns {
		fi := need(c, r, clause, k)
		if fi == nil {
			continue
		}
		viol := ""
		var sites []string
		n := 0
		allInstrs(fi.SSA, true, func(_ *ssa.Function, _ *ssa.BasicBlock, _ int, ins ssa.Instruction) {
			sl, ok := ins.(*ssa.Slice)
			if !ok {
				return
			}
			if b, isStr := sl.X.Type().Underlying().(*types.Basic); !isStr || b.Kind() != types.String {
				return
			}
			for _, bound := range []ssa.Value{sl.Low, sl.High} {
				if bound == nil {
					continue
				}
				for _, src := range searchResultsIn(bound, 0, map[ssa.Value]bool{}) {
					n++
					sites = append(sites, w.pos(sl.Pos()))
					args := src.Common().Args
					if len(args) == 0 {
						continue
					}
					if !equivLoad(stripTrivial(args[0]), stripTrivial(sl.X), 0) {
						viol = fmt.Sprintf("%s: %s cuts %s at an offset that %s found in another string (%s): the offset is relative to what was searched, not to what is cut - the prefix measured, and with it the column, is wrong", w.pos(sl.Pos()), k, sliceOf(sl.X), calleeName(src), sliceOf(args[0]))
					}
				}
			}
		})
		if n == 0 {
			sites = []string{w.pos(fi.Decl.Pos())}
		}
		r.add(clause, "fieldflow", k+":offset-indexes-its-text", k+": an offset found by searching a text is applied to that same text", []string{k}, sites, viol)
	}
}

// checkSpanEqualsNeedle: a range that starts at the offset at which a needle was found ends
// needle-length bytes later. The end bound of the slice is <match offset> + Σ len(v) + Σ const; the
// needle is a concatenation of string constants and values; both sums must agree, else the range
// covers more or less than the text that was matched (C18-m20: the needle lost its closing brace,
// so `{id` also matches inside `{idx}` and the diagnostic about `id` covers `{idx`).
func checkSpanEqualsNeedle(c *Ctx, r *Report, clause string, fns ...string) {
	w := c.W
	for _, k := range fns {
		fi := need(c, r, clause, k)
		if fi == nil {
			continue
		}
		viol := ""
		var sites []string
		n := 0
		allInstrs(fi.SSA, true, func(_ *ssa.Function, _ *ssa.BasicBlock, _ int, ins ssa.Instruction) {
			sl, ok := ins.(*ssa.Slice)
			if !ok || sl.High == nil {
				return
			}
			if b, isStr := sl.X.Type().Underlying().(*types.Basic); !isStr || b.Kind() != types.String {
				return
			}
			// end bound: leaves of the + tree
			var search *ssa.Call
			var lens []ssa.Value
			constSum, okShape := int64(0), true
			var walk func(v ssa.Value, d int)
			walk = func(v ssa.Value, d int) {
				if d > 6 {
					okShape = false
					return
				}
				switch x := v.(type) {
				case *ssa.BinOp:
					if x.Op != token.ADD {
						okShape = false
						return
					}
					walk(x.X, d+1)
					walk(x.Y, d+1)
				case *ssa.Const:
					if x.Value == nil {
						okShape = false
						return
					}
					constSum += x.Int64()
				case *ssa.Call:
					if sc := searchResultIn(x, 0); sc != nil && sc == x {
						if search != nil {
							okShape = false
						}
						search = x
						return
					}
					if b, ok := x.Call.Value.(*ssa.Builtin); ok && b.Name() == "len" && len(x.Call.Args) == 1 {
						lens = append(lens, stripTrivial(x.Call.Args[0]))
						return
					}
					okShape = false
				case *ssa.Convert:
					walk(x.X, d+1)
				default:
					okShape = false
				}
			}
			walk(sl.High, 0)
			if !okShape || search == nil || len(search.Call.Args) < 2 {
				return
			}
			if constSum == 0 && len(lens) == 0 {
				return // the prefix up to the match: the start of the range, not its end
			}
			// needle: leaves of the string concatenation
			var vals []ssa.Value
			needleConst := int64(0)
			okNeedle := true
			var walkN func(v ssa.Value, d int)
			walkN = func(v ssa.Value, d int) {
				if d > 6 {
					okNeedle = false
					return
				}
				switch x := v.(type) {
				case *ssa.BinOp:
					if x.Op != token.ADD {
						okNeedle = false
						return
					}
					walkN(x.X, d+1)
					walkN(x.Y, d+1)
				case *ssa.Const:
					if x.Value == nil || x.Value.Kind() != constant.String {
						okNeedle = false
						return
					}
					needleConst += int64(len(constant.StringVal(x.Value)))
				default:
					vals = append(vals, stripTrivial(v))
				}
			}
			needle := search.Call.Args[1]
			walkN(needle, 0)
			if !okNeedle {
				return
			}
			n++
			sites = append(sites, w.pos(sl.Pos()))
			// len(needle) as a whole
			if len(lens) == 1 && constSum == 0 && (lens[0] == stripTrivial(needle) || equivLoad(lens[0], stripTrivial(needle), 0)) {
				return
			}
			match := constSum == needleConst && len(lens) == len(vals)
			if match {
				used := make([]bool, len(vals))
				for _, l := range lens {
					found := false
					for i, v := range vals {
						if !used[i] && (l == v || equivLoad(l, v, 0)) {
							used[i], found = true, true
							break
						}
					}
					if !found {
						match = false
					}
				}
			}
			if !match {
				viol = fmt.Sprintf("%s: %s ends the range %d constant byte(s) + %d measured value(s) after the offset at which %s matched, but the needle searched (%s) is %d constant byte(s) + %d value(s) long: the range does not cover the text that was matched, and a needle that is not the whole delimited token also matches inside a longer one", w.pos(sl.Pos()), k, constSum, len(lens), calleeName(search), sliceOf(needle), needleConst, len(vals))
			}
		})
		if n == 0 {
			sites = []string{w.pos(fi.Decl.Pos())}
			viol = fmt.Sprintf("%s: %s: no range end of the form <match offset> + <needle length> recognised (undecided)", w.pos(fi.Decl.Pos()), k)
		}
		r.add(clause, "fieldflow", k+":span-equals-needle", k+": a range that starts where a needle matched ends needle-length bytes later", []string{k}, sites, viol)
	}
}
