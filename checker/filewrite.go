package main

import (
	"fmt"

	"golang.org/x/tools/go/ssa"
)

// fileWrite is one place where fn (directly, or through a gleece helper that writes what
// it is given) writes a file: the call instruction inside fn and the operands as seen
// from fn.
type fileWrite struct {
	Site      ssa.CallInstruction
	Path      ssa.Value
	Data      ssa.Value
	Perm      ssa.Value
	PathAtoms *sliceAtoms // what the path depends on, seen from fn (helper-level dependencies merged with the call's arguments)
	PermAtoms *sliceAtoms
	Via       string // "os.WriteFile", "os.OpenFile+Write", "os.Create+Write", or "<helper> -> ..."
	Truncates bool   // an existing, longer file cannot leave stale bytes behind
}

const oTrunc = 0x200

// fileWritesOf enumerates the file writes of fn; helpers are followed to depth 2 when
// the path/data they write are their own parameters.
func (w *World) fileWritesOf(fn *ssa.Function, depth int) []fileWrite {
	var out []fileWrite
	if fn == nil || depth > bound(2) {
		return out
	}
	paramIdx := func(g *ssa.Function, v ssa.Value) int {
		v = stripTrivial(v)
		// conversions []byte(s) keep the identity of what is written
		for {
			if cv, ok := v.(*ssa.Convert); ok {
				v = stripTrivial(cv.X)
				continue
			}
			break
		}
		for i, p := range g.Params {
			if v == ssa.Value(p) {
				return i
			}
		}
		return -1
	}
	allInstrsLocal(fn, false, func(_ *ssa.Function, _ *ssa.BasicBlock, _ int, ins ssa.Instruction) {
		cl, ok := ins.(ssa.CallInstruction)
		if !ok {
			return
		}
		args := cl.Common().Args
		switch nm := calleeName(cl); nm {
		case "os.WriteFile":
			out = append(out, fileWrite{Site: cl, Path: args[0], Data: args[1], Perm: args[2], PathAtoms: sliceOf(args[0]), PermAtoms: sliceOf(args[2]), Via: nm, Truncates: true})
		case "os.OpenFile", "os.Create":
			// the file value: result #0; find Write/WriteString calls on it
			var file ssa.Value
			if v := cl.Value(); v != nil {
				for _, ref := range *v.Referrers() {
					if ex, ok := ref.(*ssa.Extract); ok && ex.Index == 0 {
						file = ex
					}
				}
			}
			trunc := nm == "os.Create"
			var perm ssa.Value
			if nm == "os.OpenFile" {
				perm = args[2]
				if k, ok := args[1].(*ssa.Const); ok && k.Value != nil {
					trunc = k.Int64()&oTrunc != 0
				}
			}
			if file == nil {
				return
			}
			allInstrsLocal(fn, false, func(_ *ssa.Function, _ *ssa.BasicBlock, _ int, in2 ssa.Instruction) {
				c2, ok := in2.(ssa.CallInstruction)
				if !ok {
					return
				}
				n2 := calleeName(c2)
				if (n2 == "(*os.File).Write" || n2 == "(*os.File).WriteString") && len(c2.Common().Args) == 2 && stripTrivial(c2.Common().Args[0]) == file {
					fw := fileWrite{Site: cl, Path: args[0], Data: c2.Common().Args[1], Perm: perm, PathAtoms: sliceOf(args[0]), Via: nm + "+Write", Truncates: trunc}
					if perm != nil {
						fw.PermAtoms = sliceOf(perm)
					}
					out = append(out, fw)
				}
			})
		default:
			callee := cl.Common().StaticCallee()
			if callee == nil || callee.Pkg == nil || !isGleecePkg(callee.Pkg.Pkg.Path()) || callee == fn {
				return
			}
			for _, sub := range w.fileWritesOf(callee, depth+1) {
				di := paramIdx(callee, sub.Data)
				if di < 0 || di >= len(args) {
					continue // the helper decides what it writes itself: not a pass-through writer
				}
				fw := fileWrite{Site: cl, Data: args[di], Via: fnShort(callee) + " -> " + sub.Via, Truncates: sub.Truncates}
				if pi := paramIdx(callee, sub.Path); pi >= 0 && pi < len(args) {
					fw.Path = args[pi]
				}
				fw.PathAtoms = translateAtoms(callee, sub.PathAtoms, args)
				if sub.PermAtoms != nil {
					fw.PermAtoms = translateAtoms(callee, sub.PermAtoms, args)
				}
				if sub.Perm != nil {
					if qi := paramIdx(callee, sub.Perm); qi >= 0 && qi < len(args) {
						fw.Perm = args[qi]
					}
				}
				out = append(out, fw)
			}
		}
	})
	return out
}

// ruleWriteAfterOK: every file write of fnKey is reachable only after guard succeeded.
func ruleWriteAfterOK(c *Ctx, r *Report, clause, fnKey, guard string, desc string) {
	fi := need(c, r, clause, fnKey)
	if fi == nil {
		return
	}
	w := c.W
	key := fnKey + ":file-write<-" + guard
	fws := w.fileWritesOf(fi.SSA, 0)
	if len(fws) == 0 {
		r.add(clause, "guardedby", key, desc, []string{fnKey}, []string{w.pos(fi.Decl.Pos())}, fmt.Sprintf("no file write found in %s (directly or through a helper that writes what it is given)", fnKey))
		return
	}
	var sites []string
	viol := ""
	for _, fw := range fws {
		sites = append(sites, w.pos(fw.Site.Pos()))
		gs, ok := w.afterOK(fi.SSA, fw.Site, nameIs(guard), -1, guard, 0)
		sites = append(sites, gs...)
		if !ok {
			viol = fmt.Sprintf("%s: a file is written (%s) on a path on which %s did not succeed", w.pos(fw.Site.Pos()), fw.Via, guard)
		}
	}
	r.add(clause, "guardedby", key, desc, []string{fnKey, guard}, sites, viol)
}

// translateAtoms: atoms of a helper-level value, with the helper's parameters replaced by
// the atoms of the arguments at this call.
func translateAtoms(callee *ssa.Function, a *sliceAtoms, args []ssa.Value) *sliceAtoms {
	out := newAtoms()
	if a == nil {
		return out
	}
	for f := range a.Fields {
		out.Fields[f] = true
	}
	for c := range a.Calls {
		out.Calls[c] = true
	}
	for g := range a.Globals {
		out.Globals[g] = true
	}
	out.Consts = append(out.Consts, a.Consts...)
	for p := range a.Params {
		for i, q := range callee.Params {
			if q == p && i < len(args) {
				sub := sliceOf(args[i])
				for f := range sub.Fields {
					out.Fields[f] = true
				}
				for c := range sub.Calls {
					out.Calls[c] = true
				}
				for g := range sub.Globals {
					out.Globals[g] = true
				}
				for pp := range sub.Params {
					out.Params[pp] = true
				}
				out.Consts = append(out.Consts, sub.Consts...)
			}
		}
	}
	return out
}
