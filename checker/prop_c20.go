package main

import (
	"fmt"
	"go/ast"
	"go/token"
	"go/types"
	"reflect"
	"regexp/syntax"
	"sort"
	"strings"

	"golang.org/x/tools/go/packages"
	"golang.org/x/tools/go/ssa"
)

const pkgValidator = "github.com/go-playground/validator/v10"

func init() {
	register("C20", "Static structural obligations for 'configuration is validated up front and honoured': LoadGleeceConfig succeeds only through json5.Unmarshal and ValidateStruct of the value it decoded, and analysis starts only after it succeeded; every rule name in the `validate` tags of the GleeceConfig closure is a validator built-in or registered in initValidator, and slices of constrained structs carry `dive`; the enumerations in the tags equal the constants and the switch arms that consume them; output paths, file mode, package, engine, version, info/servers/securitySchemes and globs flow from the configuration; only glob-matched files are walked (filter present and complete before use); the permission regex admits only strings PermissionStringToFileMod accepts; every configuration field is read by the generator. What the validator library does with a tag, and file-system effects, are not decided.", checkC20)
}

// mapKeysOfVar: constant keys of a package-level map literal in any loaded package.
func mapKeysOfVar(p *packages.Package, varName string) ([]string, token.Pos) {
	if p == nil {
		return nil, token.NoPos
	}
	for _, f := range p.Syntax {
		for _, d := range f.Decls {
			gd, ok := d.(*ast.GenDecl)
			if !ok || gd.Tok != token.VAR {
				continue
			}
			for _, s := range gd.Specs {
				vs := s.(*ast.ValueSpec)
				for i, nm := range vs.Names {
					if nm.Name != varName || i >= len(vs.Values) {
						continue
					}
					cl, ok := vs.Values[i].(*ast.CompositeLit)
					if !ok {
						return nil, vs.Pos()
					}
					var ks []string
					for _, el := range cl.Elts {
						if kv, ok := el.(*ast.KeyValueExpr); ok {
							if tv, ok := p.TypesInfo.Types[kv.Key]; ok && tv.Value != nil {
								ks = append(ks, constString(tv.Value))
							}
						}
					}
					sort.Strings(ks)
					return ks, vs.Pos()
				}
			}
		}
	}
	return nil, token.NoPos
}

type cfgField struct {
	Owner *types.Named
	Var   *types.Var
	Tag   reflect.StructTag
	Path  string // json path
}

// configClosure walks the struct types reachable from GleeceConfig through fields.
func configClosure(root *types.Named) []cfgField {
	var out []cfgField
	seen := map[*types.Named]bool{}
	var walk func(n *types.Named, path string)
	walk = func(n *types.Named, path string) {
		if n == nil || seen[n] {
			return
		}
		st, ok := n.Underlying().(*types.Struct)
		if !ok {
			return
		}
		seen[n] = true
		for i := 0; i < st.NumFields(); i++ {
			f := st.Field(i)
			tag := reflect.StructTag(st.Tag(i))
			jn := strings.Split(tag.Get("json"), ",")[0]
			if jn == "" {
				jn = f.Name()
			}
			out = append(out, cfgField{n, f, tag, path + "." + jn})
			if en := elemStruct(f.Type()); en != nil {
				walk(en, path+"."+jn)
			}
		}
	}
	walk(root, "")
	return out
}

// elemStruct: the named struct type behind T, *T, []T, []*T, map[_]T.
func elemStruct(t types.Type) *types.Named {
	for i := 0; i < 4; i++ {
		switch x := t.(type) {
		case *types.Pointer:
			t = x.Elem()
		case *types.Slice:
			t = x.Elem()
		case *types.Array:
			t = x.Elem()
		case *types.Map:
			t = x.Elem()
		case *types.Named:
			if _, ok := x.Underlying().(*types.Struct); ok {
				return x
			}
			return nil
		default:
			return nil
		}
	}
	return nil
}

// checkConfigDecodedAsRead: the configuration the generators see is the document on disk -
// decoded from the bytes os.ReadFile returned, validated, and returned, one and the same value.
func checkConfigDecodedAsRead(c *Ctx, r *Report, clause string) {
	w := c.W
	const load = "cmd.LoadGleeceConfig"
	if fi := need(c, r, clause, load); fi != nil {
		viol := ""
		var sites []string
		um := callsIn(fi.SSA, false, nameIs("github.com/titanous/json5.Unmarshal"))
		vs := callsIn(fi.SSA, false, nameIs("infrastructure/validation.ValidateStruct"))
		if len(um) != 1 || len(vs) != 1 {
			viol = fmt.Sprintf("expected one Unmarshal and one ValidateStruct call, found %d/%d", len(um), len(vs))
		} else {
			sites = append(sites, w.pos(um[0].Pos()), w.pos(vs[0].Pos()))
			target := rootAlloc(um[0].Common().Args[1])
			if target == nil || !sliceReaches(vs[0].Common().Args[0], target) {
				viol = fmt.Sprintf("%s: the value validated is not the value the document was decoded into", w.pos(vs[0].Pos()))
			}
			for _, ex := range exitsOf(fi.SSA) {
				if ex.Kind == exitSuccess && ex.Ret != nil && len(ex.Ret.Results) == 2 {
					if ra := rootAlloc(ex.Ret.Results[0]); ra == nil || ra != target {
						viol = fmt.Sprintf("%s: the configuration returned is not the value that was decoded and validated", w.pos(retPos(ex)))
					}
				}
			}
			if !instrDominates(um[0], vs[0]) {
				viol = "validation does not come after decoding"
			}
			// what is decoded is what was read: no rewriting of the document text in between
			raw := false
			if ex, ok := stripTrivial(um[0].Common().Args[0]).(*ssa.Extract); ok && ex.Index == 0 {
				if rc, ok := ex.Tuple.(*ssa.Call); ok && calleeName(rc) == "os.ReadFile" {
					raw = true
				}
			}
			if !raw {
				viol = fmt.Sprintf("%s: the bytes decoded are not the bytes os.ReadFile returned but something computed from them (%s): string values of the document (info, servers, securitySchemes, paths) are then not honoured literally (e.g. os.ExpandEnv rewrites every `$name`)", w.pos(um[0].Pos()), sliceOf(um[0].Common().Args[0]))
			}
		}
		o := r.add(clause, "fieldflow", load+":validated==decoded==returned", "the value validated is the value decoded and the value returned", []string{load}, sites, viol)
		o.NonTrivial = true
	}
}

func isSliceLike(t types.Type) bool {
	switch t.Underlying().(type) {
	case *types.Slice, *types.Array, *types.Map:
		return true
	}
	return false
}

var validatorStructural = map[string]bool{"dive": true, "keys": true, "endkeys": true, "omitempty": true, "omitnil": true, "omitzero": true, "structonly": true, "nostructlevel": true, "-": true, "required": true}

func checkC20(c *Ctx, r *Report) {
	w := c.W
	r.NotDecided = append(r.NotDecided, "what go-playground/validator does for each rule name (semantics of url/email/filepath/oneof)", "file-system effects (umask, existing files)", "the wording of the rejection message beyond 'it is built from FieldError.Field()'")
	r.Assume = append(r.Assume, "validator descends into nested struct fields and into slice elements only under `dive` (validator v10 documentation)")

	const load = "cmd.LoadGleeceConfig"
	const gcm = "cmd.GetConfigAndMetadata"
	// ---- C20.a validated before analysis
	ruleMustCallOK(c, r, "C20.a", load, "github.com/titanous/json5.Unmarshal", -1, "LoadGleeceConfig succeeds only if the JSON5 document decoded")
	ruleMustCallOK(c, r, "C20.a", load, "infrastructure/validation.ValidateStruct", -1, "LoadGleeceConfig succeeds only if the constraint validation passed")
	checkConfigDecodedAsRead(c, r, "C20.a")
	if fi := need(c, r, "C20.a", "infrastructure/validation.ValidateStruct"); fi != nil {
		viol := "ValidateStruct does not return the verdict of validator.Struct on its argument"
		var sites []string
		for _, cl := range callsIn(fi.SSA, false, nameIs("(*"+pkgValidator+".Validate).Struct")) {
			sites = append(sites, w.pos(cl.Pos()))
			if na := len(cl.Common().Args); len(fi.SSA.Params) == 1 && na > 0 && sliceReaches(cl.Common().Args[na-1], fi.SSA.Params[0]) {
				for _, ex := range exitsOf(fi.SSA) {
					if ex.Ret != nil && len(ex.Ret.Results) == 1 && stripTrivial(ex.Ret.Results[0]) == ssa.Value(cl.(*ssa.Call)) {
						viol = ""
					}
				}
			}
		}
		for _, ex := range exitsOf(fi.SSA) {
			if ex.Ret != nil && len(ex.Ret.Results) == 1 {
				if _, isCall := stripTrivial(ex.Ret.Results[0]).(*ssa.Call); !isCall {
					viol = fmt.Sprintf("%s: ValidateStruct has a return that is not validator.Struct's verdict", w.pos(retPos(ex)))
				}
			}
		}
		r.add("C20.a", "mustcall", fi.Key+":returns-Struct-verdict", "ValidateStruct returns exactly validator.Struct(s)", []string{fi.Key}, sites, viol)
	}
	ruleSiteAfterOK(c, r, "C20.a", gcm, "cmd.getFullMetadata", load, -1, "source analysis (pipeline construction, package loading) starts only after LoadGleeceConfig returned err == nil")
	checkCommandExitStatus(c, r, "C20.a")
	checkConfigDecodedIntoZero(c, r, "C20.a")
	ruleWhoCalls(c, r, "C20.a", func(n string) bool { return n == "core/pipeline.NewGleecePipeline" }, "pipeline.NewGleecePipeline",
		[]string{"cmd.getFullMetadata", "cmd.getPipeline"}, 1, "within the command layer the pipeline is only built behind the configuration gate")
	ruleSiteAfterOK(c, r, "C20.a", "cmd.getPipeline", "core/pipeline.NewGleecePipeline", "cmd.loadGleeceConfig", -1, "dump command: the pipeline is built only after the configuration loaded")
	ruleMustCallOK(c, r, "C20.a", "cmd.loadGleeceConfig", load, -1, "dump command: loadGleeceConfig succeeds only with LoadGleeceConfig's verdict")
	ruleWhoCalls(c, r, "C20.a", func(n string) bool { return n == "cmd.getFullMetadata" }, "cmd.getFullMetadata", []string{gcm}, 1, "getFullMetadata has one caller: the gate")
	ruleWhoCalls(c, r, "C20.a", func(n string) bool { return n == load }, load,
		[]string{gcm, "cmd.loadGleeceConfig"}, 1, "every command obtains its configuration from LoadGleeceConfig")
	// the message names the field
	if fi := need(c, r, "C20.a", "infrastructure/validation.ExtractValidationErrorMessage"); fi != nil {
		viol := "the rejection message is not built from FieldError.Field()/Tag()"
		var sites []string
		f, t := false, false
		for _, cl := range callsIn(fi.SSA, true, func(n string) bool {
			return strings.HasSuffix(n, ".FieldError).Field") || strings.HasSuffix(n, ".FieldError).Tag")
		}) {
			sites = append(sites, w.pos(cl.Pos()))
			if strings.HasSuffix(calleeName(cl), "Field") {
				f = true
			} else {
				t = true
			}
		}
		if f && t {
			viol = ""
		}
		r.add("C20.a", "fieldflow", fi.Key+":names-field", "the rejection message names the failing field and rule", []string{fi.Key}, sites, viol)
	}
	if fi := need(c, r, "C20.a", load); fi != nil {
		viol := "the validation failure message is not produced by ExtractValidationErrorMessage"
		var sites []string
		for _, cl := range callsIn(fi.SSA, false, nameIs("infrastructure/validation.ExtractValidationErrorMessage")) {
			sites = append(sites, w.pos(cl.Pos()))
			viol = ""
		}
		r.add("C20.a", "fieldflow", load+":message", "a constraint violation is reported with the field-naming message", []string{load}, sites, viol)
	}

	// ---- C20.b constraint vocabulary is live
	root := w.lookupType("definitions", "GleeceConfig")
	fields := configClosure(root)
	vp := w.ByPath[pkgValidator]
	baked, bpos := mapKeysOfVar(vp, "bakedInValidators")
	aliases, _ := mapKeysOfVar(vp, "bakedInAliases")
	known := map[string]bool{}
	for _, k := range append(baked, aliases...) {
		known[k] = true
	}
	registered := map[string]bool{}
	var regSites []string
	if fi := need(c, r, "C20.b", "infrastructure/validation.initValidator"); fi != nil {
		for _, rg := range w.validationRegistrations(fi) {
			registered[rg.Tag] = true
			regSites = append(regSites, w.pos(rg.Pos))
		}
	}
	{
		viol := ""
		if len(baked) < 100 {
			viol = fmt.Sprintf("could not read validator's bakedInValidators table (%d keys)", len(baked))
		}
		if len(fields) < 40 {
			viol = fmt.Sprintf("configuration closure has only %d fields (floor 40)", len(fields))
		}
		var sites []string
		nRules := 0
		for _, f := range fields {
			vt, ok := f.Tag.Lookup("validate")
			if !ok {
				continue
			}
			sites = append(sites, w.pos(f.Var.Pos()))
			for _, alt := range strings.Split(vt, ",") {
				for _, rule := range strings.Split(alt, "|") {
					name := strings.SplitN(rule, "=", 2)[0]
					nRules++
					if name == "" || !(known[name] || registered[name] || validatorStructural[name]) {
						viol = fmt.Sprintf("%s: config field %s uses validation rule %q which is neither a validator built-in nor registered in initValidator: validator.Struct panics on it (or, with a typo'd built-in, nothing is checked)", w.pos(f.Var.Pos()), f.Path, name)
					}
				}
			}
		}
		// a registered rule must not replace a built-in one: the tags were written against the
		// library's documented semantics (url, email, filepath, oneof, ...)
		var shadow []string
		for k := range registered {
			if known[k] {
				shadow = append(shadow, k)
			}
		}
		sort.Strings(shadow)
		if len(shadow) > 0 {
			viol = fmt.Sprintf("initValidator registers %v, which replaces the validator library's built-in rule of the same name: every config field tagged with it (e.g. baseUrl `url`, openIdConnectUrl) is now checked by gleece's own, possibly laxer, function - malformed values that the built-in rejects are accepted and analysis proceeds", shadow)
		}
		if nRules < 35 {
			viol = fmt.Sprintf("only %d validation rules found in the configuration closure (floor 35)", nRules)
		}
		o := r.add("C20.b", "setagree", "validate-tags⊆builtins∪registered", fmt.Sprintf("all %d rule names in the `validate` tags of the %d configuration fields are known to the validator", nRules, len(fields)), []string{"definitions.GleeceConfig", "infrastructure/validation.initValidator", w.pos(bpos)}, append(sites, regSites...), viol)
		o.NonTrivial = true
	}
	{
		// dive: a slice/map of structs whose element type has constraints must be entered
		viol := ""
		var sites []string
		n := 0
		hasConstraints := func(n *types.Named) bool {
			for _, f := range configClosure(n) {
				if _, ok := f.Tag.Lookup("validate"); ok {
					return true
				}
			}
			return false
		}
		for _, f := range fields {
			if !isSliceLike(f.Var.Type()) {
				continue
			}
			en := elemStruct(f.Var.Type())
			if en == nil || !hasConstraints(en) {
				continue
			}
			n++
			sites = append(sites, w.pos(f.Var.Pos()))
			rules := strings.Split(f.Tag.Get("validate"), ",")
			found := false
			for _, ru := range rules {
				if ru == "dive" {
					found = true
				}
			}
			if !found {
				viol = fmt.Sprintf("%s: config field %s is a collection of %s, whose fields carry constraints, but its tag %q has no `dive`: the elements' constraints (required/type/in/url...) are never evaluated and malformed entries are accepted", w.pos(f.Var.Pos()), f.Path, en.Obj().Name(), f.Tag.Get("validate"))
			}
		}
		if n < 1 {
			viol = fmt.Sprintf("expected >= 1 collection-of-struct config field (securitySchemes), found %d", n)
		}
		o := r.add("C20.b", "tagrule", "collections-of-constrained-structs-dive", "every collection of constrained structs in the configuration is entered by the validator", []string{"definitions.GleeceConfig"}, sites, viol)
		o.NonTrivial = true
	}
	{
		// required sections: the three top-level sections and the nested mandatory ones stay `required`
		viol := ""
		var sites []string
		want := map[string]bool{".commonConfig": true, ".routesConfig": true, ".openapiGeneratorConfig": true, ".routesConfig.engine": true, ".routesConfig.outputPath": true, ".routesConfig.authorizationConfig": true, ".routesConfig.authorizationConfig.authFileFullPackageName": true,
			".openapiGeneratorConfig.openapi": true, ".openapiGeneratorConfig.info": true, ".openapiGeneratorConfig.baseUrl": true, ".openapiGeneratorConfig.specGeneratorConfig": true, ".openapiGeneratorConfig.specGeneratorConfig.outputPath": true,
			".openapiGeneratorConfig.info.title": true, ".openapiGeneratorConfig.info.version": true}
		got := map[string]bool{}
		for _, f := range fields {
			if !want[f.Path] {
				continue
			}
			sites = append(sites, w.pos(f.Var.Pos()))
			for _, ru := range strings.Split(f.Tag.Get("validate"), ",") {
				if ru == "required" {
					got[f.Path] = true
				}
			}
		}
		for p := range want {
			if !got[p] {
				viol = fmt.Sprintf("configuration field %s is documented as mandatory (docs/configuration, consumed unconditionally by the generators) but is no longer `required`", p)
			}
		}
		r.add("C20.b", "tagrule", "mandatory-fields-required", "the mandatory sections/fields are `required`", []string{"definitions.GleeceConfig"}, sites, viol)
	}

	// ---- C20.c enumerations agree with code
	checkEngineTables(c, r, "C20.c")
	{
		oc := w.lookupType("definitions", "OpenAPIGeneratorConfig")
		tag, _ := tagOf(oc, "OpenAPI", "validate")
		oneof := oneofValues(tag)
		var labels, sites []string
		if fi := need(c, r, "C20.c", "generator/swagen.GenerateSpec"); fi != nil {
			labs, ps := w.dispatchLabels(fi, w.exprIsJustField(fi, "definitions.OpenAPIGeneratorConfig.OpenAPI"))
			labels = append(labels, labs...)
			for _, p := range ps {
				sites = append(sites, w.pos(p))
			}
		}
		if f := fieldOf(oc, "OpenAPI"); f != nil {
			sites = append(sites, w.pos(f.Pos()))
		}
		ruleSetEqual(c, r, "C20.c", "openapi:oneof==version-switch", "the versions a configuration may name are exactly those the spec manager can emit", "oneof of OpenAPIGeneratorConfig.OpenAPI", oneof, "swagen.GenerateSpec switch", dedupSorted(labels), sites)
	}
	{
		sc := w.lookupType("definitions", "SecuritySchemeConfig")
		tag, _ := tagOf(sc, "Scheme", "validate")
		var ss []string
		if f := fieldOf(sc, "Scheme"); f != nil {
			ss = append(ss, w.pos(f.Pos()))
		}
		ruleSetEqual(c, r, "C20.c", "httpAuthScheme:oneof==consts", "the http auth schemes a configuration may name are the declared HttpAuthScheme constants", "oneof of SecuritySchemeConfig.Scheme", oneofValues(tag), "HttpAuthScheme constants", values(w.constsOfType(w.lookupType("definitions", "HttpAuthScheme"))), ss)
	}
	if fi := need(c, r, "C20.c", "infrastructure/validation.initValidator"); fi != nil {
		// registered enum validators list exactly the constants of their type
		for _, e := range []struct{ rule, typ string }{{"security_schema_in", "SecuritySchemeIn"}, {"security_schema_type", "SecuritySchemeType"}} {
			var listed, sites []string
			for _, rg := range w.validationRegistrations(fi) {
				if rg.Tag != e.rule {
					continue
				}
				sites = append(sites, w.pos(rg.Pos))
				// the values handed to the enum validator: elements of a slice literal, or the
				// operands of a variadic constructor
				ast.Inspect(rg.Fn, func(m ast.Node) bool {
					var elems []ast.Expr
					switch y := m.(type) {
					case *ast.CompositeLit:
						elems = y.Elts
					case *ast.CallExpr:
						if _, isLit := ast.Unparen(y.Fun).(*ast.FuncLit); !isLit && len(y.Args) > 0 {
							if _, isComp := ast.Unparen(y.Args[0]).(*ast.CompositeLit); !isComp {
								elems = y.Args
							}
						}
					}
					for _, el := range elems {
						if tv, ok := fi.Pkg.TypesInfo.Types[el]; ok && tv.Value != nil {
							listed = append(listed, constString(tv.Value))
						}
					}
					return len(elems) == 0 || len(listed) == 0
				})
			}
			consts := values(w.constsOfType(w.lookupType("definitions", e.typ)))
			ruleSetEqual(c, r, "C20.c", e.rule+":registered==consts", "the values accepted by the `"+e.rule+"` rule are the declared "+e.typ+" constants", "values registered in initValidator", dedupSortedPlain(listed), e.typ+" constants", consts, sites)
		}
	}

	// ---- C20.d honoured literally
	const gr = "generator/routes.GenerateRoutes"
	if fi := need(c, r, "C20.d", gr); fi != nil {
		viol := ""
		var sites []string
		for _, fw := range w.fileWritesOf(fi.SSA, 0) {
			sites = append(sites, w.pos(fw.Site.Pos()))
			pa := fw.PathAtoms
			if !pa.hasFieldNamed("OutputPath") || !pa.hasFieldNamed("RoutesConfig") || len(pa.Consts) > 0 {
				viol = fmt.Sprintf("%s: the routes file path is not exactly routesConfig.outputPath (fields %v consts %v)", w.pos(fw.Site.Pos()), pa.fieldNames(), pa.Consts)
			}
			for cn := range pa.Calls {
				viol = fmt.Sprintf("%s: the configured routes path passes through %s before it is used", w.pos(fw.Site.Pos()), cn)
			}
			if fw.PermAtoms == nil {
				viol = fmt.Sprintf("%s: the routes file is created without an explicit mode (%s)", w.pos(fw.Site.Pos()), fw.Via)
				continue
			}
			ma := fw.PermAtoms
			if !ma.Calls["generator/routes.getOutputFileMod"] || !ma.hasFieldNamed("OutputFilePerms") {
				viol = fmt.Sprintf("%s: the routes file mode is not getOutputFileMod(routesConfig.outputFilePerms)", w.pos(fw.Site.Pos()))
			}
		}
		// the directory created is the output path's directory, wherever in the package it is created
		for _, fn := range w.SSAFuncs {
			if fn.Pkg == nil || short(fn.Pkg.Pkg.Path()) != "generator/routes" {
				continue
			}
			for _, md := range callsIn(fn, false, nameIs("os.MkdirAll")) {
				sites = append(sites, w.pos(md.Pos()))
				pa := sliceOf(md.Common().Args[0])
				if !pa.hasFieldNamed("OutputPath") || !pa.Calls["path/filepath.Dir"] {
					viol = fmt.Sprintf("%s: the directory created is not filepath.Dir(routesConfig.outputPath)", w.pos(md.Pos()))
				}
			}
		}
		if len(w.fileWritesOf(fi.SSA, 0)) < 1 {
			viol = "GenerateRoutes does not write the routes file (directly or through a helper that writes what it is given)"
		}
		o := r.add("C20.d", "fieldflow", gr+":path+mode", "the routes file goes to routesConfig.outputPath with mode getOutputFileMod(routesConfig.outputFilePerms)", []string{gr}, sites, viol)
		o.NonTrivial = true

		// engine -> template set
		v2 := ""
		var s2 []string
		for _, callee := range []string{"generator/routes.getRoutesTemplateString", "generator/routes.registerPartials"} {
			cs := callsIn(fi.SSA, false, nameIs(callee))
			if len(cs) == 0 {
				v2 = callee + " is not called by GenerateRoutes"
			}
			for _, cl := range cs {
				s2 = append(s2, w.pos(cl.Pos()))
				a := sliceOf(cl.Common().Args[0])
				wholeConfig := len(a.Fields) == 0 && len(a.Params) == 1 && len(a.Consts) == 0 && len(a.Calls) == 0
				if !wholeConfig && (!a.hasFieldNamed("Engine") || len(a.Consts) > 0) {
					v2 = fmt.Sprintf("%s: %s is not selected by routesConfig.engine", w.pos(cl.Pos()), callee)
				}
			}
		}
		if rp := w.fn("generator/routes.registerPartials"); rp != nil {
			n := 0
			for _, sw := range w.switches(rp, func(tag ast.Expr) bool {
				t := rp.Pkg.TypesInfo.TypeOf(tag)
				return t != nil && strings.HasSuffix(t.String(), "definitions.RoutingEngineType")
			}) {
				n++
				s2 = append(s2, w.pos(sw.Pos))
				if a := w.exprAtoms(rp, sw.Stmt.Tag); !a.Fields["definitions.RoutesConfig.Engine"] {
					v2 = fmt.Sprintf("%s: registerPartials does not switch on routesConfig.engine", w.pos(sw.Pos))
				}
			}
			if n == 0 {
				// the dispatch written another way: comparisons with, or a table keyed by, the engine constants
				labels, ps := w.dispatchLabels(rp, func(tag ast.Expr) bool {
					for _, f := range w.astRegion(rp) {
						if t := f.Pkg.TypesInfo.TypeOf(tag); t != nil && strings.HasSuffix(t.String(), "definitions.RoutingEngineType") {
							a := w.exprAtoms(f, tag)
							return a.Fields["definitions.RoutesConfig.Engine"]
						}
					}
					return false
				})
				for _, p := range ps {
					s2 = append(s2, w.pos(p))
				}
				if len(labels) < 5 {
					v2 = fmt.Sprintf("registerPartials does not dispatch on routesConfig.engine over the engine constants (labels found: %v)", labels)
				}
			}
		}
		r.add("C20.d", "fieldflow", gr+":engine", "the template set and the partials are those of routesConfig.engine", []string{gr}, s2, v2)
		// routesConfig.packageName is honoured as written
		checkPackageNameVerbatim(c, r, "C20.d")
	}
	if fi := need(c, r, "C20.d", "generator/routes.getOutputFileMod"); fi != nil {
		viol := ""
		var sites []string
		ok := false
		for _, ex := range exitsOf(fi.SSA) {
			if ex.Ret == nil || len(ex.Ret.Results) != 1 {
				continue
			}
			sites = append(sites, w.pos(retPos(ex)))
			a := sliceOf(ex.Ret.Results[0])
			if a.Calls["definitions.PermissionStringToFileMod"] {
				ok = true
				continue
			}
			// any other return is the documented default 0644
			k, isConst := stripTrivial(ex.Ret.Results[0]).(*ssa.Const)
			if !isConst || constString(k.Value) != "420" {
				viol = fmt.Sprintf("%s: getOutputFileMod returns something other than the parsed permission or the default 0644", w.pos(retPos(ex)))
			}
		}
		if !ok {
			viol = "getOutputFileMod never returns PermissionStringToFileMod's result"
		}
		for _, cl := range callsIn(fi.SSA, false, nameIs("definitions.PermissionStringToFileMod")) {
			if len(fi.SSA.Params) != 1 || stripTrivial(cl.Common().Args[0]) != ssa.Value(fi.SSA.Params[0]) {
				viol = fmt.Sprintf("%s: the string parsed is not the configured permission string", w.pos(cl.Pos()))
			}
		}
		r.add("C20.d", "fieldflow", fi.Key+":parsed-or-default", "the mode is the configured permission string parsed as octal, 0644 only when it is empty/unparseable", []string{fi.Key}, sites, viol)
	}
	if fi := need(c, r, "C20.d", "definitions.PermissionStringToFileMod"); fi != nil {
		viol := "PermissionStringToFileMod does not parse its argument as an octal number"
		var sites []string
		for _, cl := range callsIn(fi.SSA, false, nameIs("strconv.ParseUint")) {
			sites = append(sites, w.pos(cl.Pos()))
			base, isConst := cl.Common().Args[1].(*ssa.Const)
			if isConst && constString(base.Value) == "8" && len(fi.SSA.Params) == 1 && cl.Common().Args[0] == ssa.Value(fi.SSA.Params[0]) {
				viol = ""
			}
		}
		for _, ex := range exitsOf(fi.SSA) {
			if ex.Kind == exitSuccess && ex.Ret != nil {
				a := sliceOf(ex.Ret.Results[0])
				if !a.Calls["strconv.ParseUint"] {
					viol = fmt.Sprintf("%s: the mode returned on success is not the parsed number", w.pos(retPos(ex)))
				}
			}
		}
		r.add("C20.d", "fieldflow", fi.Key+":octal", "the permission string is read as octal", []string{fi.Key}, sites, viol)
	}
	// spec path
	const gout = "generator/swagen.GenerateAndOutputSpec"
	if fi := need(c, r, "C20.d", gout); fi != nil {
		viol := ""
		var sites []string
		var pathOperands []struct {
			pos token.Pos
			v   ssa.Value
		}
		for _, cl := range callsIn(fi.SSA, false, nameIs("os.MkdirAll")) {
			pathOperands = append(pathOperands, struct {
				pos token.Pos
				v   ssa.Value
			}{cl.Pos(), cl.Common().Args[0]})
		}
		for _, fw := range w.fileWritesOf(fi.SSA, 0) {
			pathOperands = append(pathOperands, struct {
				pos token.Pos
				v   ssa.Value
			}{fw.Site.Pos(), fw.Path})
			if fw.Path == nil {
				viol = fmt.Sprintf("%s: the spec is written through a helper that derives the path itself (%s)", w.pos(fw.Site.Pos()), fw.Via)
			}
		}
		for _, po := range pathOperands {
			cl := po
			sites = append(sites, w.pos(cl.pos))
			pa := sliceOf(cl.v)
			if !pa.hasFieldNamed("OutputPath") || !pa.hasFieldNamed("SpecGeneratorConfig") || len(pa.Consts) > 0 {
				viol = fmt.Sprintf("%s: path is not derived from specGeneratorConfig.outputPath alone (fields %v consts %v)", w.pos(cl.pos), pa.fieldNames(), pa.Consts)
			}
			for cn := range pa.Calls {
				if cn != "path/filepath.Dir" {
					viol = fmt.Sprintf("%s: the configured spec path passes through %s before it is used: the artifact can land at a path that was never configured", w.pos(cl.pos), cn)
				}
			}
		}
		if len(w.fileWritesOf(fi.SSA, 0)) != 1 {
			viol = fmt.Sprintf("expected one file write in %s, found %d", gout, len(w.fileWritesOf(fi.SSA, 0)))
		}
		r.add("C20.d", "fieldflow", gout+":path", "the spec goes to openapiGeneratorConfig.specGeneratorConfig.outputPath", []string{gout}, sites, viol)
	}
	// cmd: each generator gets the sections of the loaded configuration
	for _, g := range []struct{ fn, callee, field string }{
		{"cmd.GenerateSpec", "generator/swagen.GenerateAndOutputSpec", "OpenAPIGeneratorConfig"},
		{"cmd.GenerateSpecAndRoutes", "generator/swagen.GenerateAndOutputSpec", "OpenAPIGeneratorConfig"},
	} {
		fi := need(c, r, "C20.d", g.fn)
		if fi == nil {
			continue
		}
		viol := g.callee + " is not called"
		var sites []string
		for _, cl := range callsIn(fi.SSA, false, nameIs(g.callee)) {
			sites = append(sites, w.pos(cl.Pos()))
			a := sliceOf(cl.Common().Args[0])
			if a.hasFieldNamed(g.field) && a.Calls[gcm] {
				viol = ""
			} else {
				viol = fmt.Sprintf("%s: the generator is not given the %s section of the loaded configuration", w.pos(cl.Pos()), g.field)
			}
		}
		r.add("C20.d", "fieldflow", g.fn+":passes-config", g.fn+" hands the loaded configuration's "+g.field+" to the generator", []string{g.fn}, sites, viol)
	}
	for _, fnk := range []string{"cmd.GenerateRoutes", "cmd.GenerateSpecAndRoutes"} {
		fi := need(c, r, "C20.d", fnk)
		if fi == nil {
			continue
		}
		viol := "routes.GenerateRoutes is not called"
		var sites []string
		for _, cl := range callsIn(fi.SSA, false, nameIs(gr)) {
			sites = append(sites, w.pos(cl.Pos()))
			a := sliceOf(cl.Common().Args[0])
			if a.Calls[gcm] && len(a.Fields) == 0 {
				viol = ""
			} else {
				viol = fmt.Sprintf("%s: the routes generator is not given the loaded configuration itself", w.pos(cl.Pos()))
			}
		}
		r.add("C20.d", "fieldflow", fnk+":passes-config", fnk+" hands the loaded configuration to the routes generator", []string{fnk}, sites, viol)
	}
	checkInfoCopied(c, r, "C20.d", "generator/swagen/swagen30.GenerateSpec", "generator/swagen/swagen31.GenerateSpec")
	checkInfoSectionsIndependent(c, r, "C20.d", "generator/swagen/swagen30.GenerateSpec", "generator/swagen/swagen31.GenerateSpec")
	checkNoDroppedParameters(c, r, "C20.d")
	for _, e := range emitters {
		checkSecuritySchemes(c, r, "C20.d", e.Ver, e.Pkg)
	}
	checkGlobs(c, r)

	// ---- C20.e permission regex ⊆ PermissionStringToFileMod's domain
	{
		rc := w.lookupType("definitions", "RoutesConfig")
		tag, _ := tagOf(rc, "OutputFilePerms", "validate")
		viol := ""
		var sites []string
		if f := fieldOf(rc, "OutputFilePerms"); f != nil {
			sites = append(sites, w.pos(f.Pos()))
		}
		pat := ""
		for _, ru := range strings.Split(tag, ",") {
			if strings.HasPrefix(ru, "regex=") {
				pat = strings.TrimPrefix(ru, "regex=")
			}
		}
		if pat == "" {
			viol = "routesConfig.outputFilePerms no longer carries a regex constraint"
		} else if msg := octalOnly(pat); msg != "" {
			viol = fmt.Sprintf("permission pattern %q admits strings PermissionStringToFileMod rejects (%s): such a configuration is accepted and then silently written with 0644", pat, msg)
		}
		o := r.add("C20.e", "regex-lang", "outputFilePerms:regex⊆octal≤07777", "every string the permission constraint admits is empty or an octal number of at most four digits", []string{"definitions.RoutesConfig.OutputFilePerms"}, sites, viol)
		o.NonTrivial = true
	}

	// ---- C20.f every configuration field is consumed
	checkConfigLiveness(c, r, fields)

	ruleEarlyExitInventory(c, r, "C20.d", 4, "core/arbitrators", "cmd", "generator/routes", "generator/swagen")
	ruleErrDrops(c, r, "C20.d", "core/arbitrators", "cmd", "definitions", "generator", "core/pipeline")
	// every element filter in these packages is a reviewed one
	ruleSkipInventory(c, r, "C20.d", loadSkipTable(c.VerifDir), 4, "core/arbitrators")
}

// octalOnly decides, on the regex syntax tree, that every match of the anchored pattern is
// "" or 1..4 characters each in [0-7]. Returns "" when it holds.
func octalOnly(pat string) string {
	re, err := syntax.Parse(pat, syntax.Perl)
	if err != nil {
		return "does not parse: " + err.Error()
	}
	re = re.Simplify()
	// must be anchored at both ends
	if re.Op != syntax.OpConcat || len(re.Sub) < 2 || re.Sub[0].Op != syntax.OpBeginText || re.Sub[len(re.Sub)-1].Op != syntax.OpEndText {
		return "not anchored with ^...$"
	}
	var maxLen func(r *syntax.Regexp) (int, string)
	maxLen = func(r *syntax.Regexp) (int, string) {
		switch r.Op {
		case syntax.OpEmptyMatch, syntax.OpBeginText, syntax.OpEndText:
			return 0, ""
		case syntax.OpLiteral:
			for _, ch := range r.Rune {
				if ch < '0' || ch > '7' {
					return 0, fmt.Sprintf("literal %q", ch)
				}
			}
			return len(r.Rune), ""
		case syntax.OpCharClass:
			for i := 0; i+1 < len(r.Rune); i += 2 {
				if r.Rune[i] < '0' || r.Rune[i+1] > '7' {
					return 0, fmt.Sprintf("class [%c-%c]", r.Rune[i], r.Rune[i+1])
				}
			}
			return 1, ""
		case syntax.OpCapture:
			return maxLen(r.Sub[0])
		case syntax.OpQuest:
			return maxLen(r.Sub[0])
		case syntax.OpConcat:
			t := 0
			for _, s := range r.Sub {
				n, m := maxLen(s)
				if m != "" {
					return 0, m
				}
				t += n
			}
			return t, ""
		case syntax.OpAlternate:
			t := 0
			for _, s := range r.Sub {
				n, m := maxLen(s)
				if m != "" {
					return 0, m
				}
				if n > t {
					t = n
				}
			}
			return t, ""
		case syntax.OpRepeat:
			if r.Max < 0 {
				return 0, "unbounded repetition"
			}
			n, m := maxLen(r.Sub[0])
			return n * r.Max, m
		default:
			return 0, "operator " + r.Op.String()
		}
	}
	n, m := maxLen(re)
	if m != "" {
		return m
	}
	if n > 4 {
		return fmt.Sprintf("up to %d digits", n)
	}
	return ""
}

// checkGlobs: which files are analysed is decided by commonConfig.controllerGlobs.
func checkGlobs(c *Ctx, r *Report) {
	w := c.W
	const napc = "core/visitors/providers.NewArbitrationProviderConfig"
	if fi := need(c, r, "C20.d", napc); fi != nil {
		viol := ""
		var sites []string
		// the Globs field of the result: phi(default literal, ControllerGlobs) guarded by len(ControllerGlobs) > 0
		found := false
		fedFromConfig := false
		allInstrs(fi.SSA, false, func(_ *ssa.Function, _ *ssa.BasicBlock, _ int, ins ssa.Instruction) {
			st, ok := ins.(*ssa.Store)
			if !ok {
				return
			}
			fa, ok := st.Addr.(*ssa.FieldAddr)
			if !ok {
				return
			}
			if f := structFieldVar(fa.X.Type(), fa.Field); f == nil || f.Name() != "Globs" {
				return
			}
			found = true
			sites = append(sites, w.pos(st.Pos()))
			a := sliceOf(st.Val)
			if a.hasFieldNamed("ControllerGlobs") {
				fedFromConfig = true
			} else if len(a.Fields) > 0 || len(a.Calls) > 0 || len(a.Params) > 0 {
				// (a store of the literal defaults, overwritten under the length test, is fine)
				viol = fmt.Sprintf("%s: PackageFacadeConfig.Globs is set from something that is neither commonConfig.controllerGlobs nor the literal defaults", w.pos(st.Pos()))
			}
			for _, e := range phiLeaves(st.Val) {
				ea := sliceOf(e)
				if ea.hasFieldNamed("ControllerGlobs") && (len(ea.Consts) > 0 || len(ea.Calls) > 0) {
					viol = fmt.Sprintf("%s: configured globs are combined with literals or transformed (%v %v)", w.pos(st.Pos()), ea.Consts, keys(ea.Calls))
				}
			}
		})
		if !found {
			viol = "no store to PackageFacadeConfig.Globs found"
		} else if !fedFromConfig && viol == "" {
			viol = "PackageFacadeConfig.Globs is not fed from commonConfig.controllerGlobs"
		}
		r.add("C20.d", "fieldflow", napc+":Globs", "the globs handed to the package facade are commonConfig.controllerGlobs (defaults only when none are configured)", []string{napc}, sites, viol)
		ruleGuarded(c, r, "C20.d", napc, "default-globs-only-when-empty",
			func(ins ssa.Instruction) bool {
				fa, ok := ins.(*ssa.FieldAddr)
				if !ok {
					return false
				}
				f := structFieldVar(fa.X.Type(), fa.Field)
				if f == nil || f.Name() != "ControllerGlobs" {
					return false
				}
				// the read that feeds Globs, not the one inside the len() test
				for _, ref := range *fa.Referrers() {
					if u, ok := ref.(*ssa.UnOp); ok {
						for _, r2 := range *u.Referrers() {
							if _, isPhi := r2.(*ssa.Phi); isPhi {
								return true
							}
							// ... or is stored straight into the Globs field
							if st, isSt := r2.(*ssa.Store); isSt {
								if ga, ok := st.Addr.(*ssa.FieldAddr); ok {
									if gf := structFieldVar(ga.X.Type(), ga.Field); gf != nil && gf.Name() == "Globs" {
										return true
									}
								}
							}
						}
					}
				}
				return false
			},
			func(a *sliceAtoms, cnd ssa.Value) bool {
				return a.hasFieldNamed("ControllerGlobs") && a.Calls["builtin.len"]
			}, true, 1,
			"configured globs replace the defaults whenever at least one is configured")
	}

	// the facade walks exactly the glob matches
	const iwg = "(*core/arbitrators.PackagesFacade).initWithGlobs"
	fi := need(c, r, "C20.d", iwg)
	if fi == nil {
		return
	}
	// (1) matched set: keys are filepath.Abs of doublestar.FilepathGlob results over config.Globs
	var matched ssa.Value
	viol := ""
	var sites []string
	allInstrs(fi.SSA, false, func(_ *ssa.Function, _ *ssa.BasicBlock, _ int, ins ssa.Instruction) {
		mu, ok := ins.(*ssa.MapUpdate)
		if !ok {
			return
		}
		ka := sliceOf(mu.Key)
		if !ka.Calls["github.com/bmatcuk/doublestar/v4.FilepathGlob"] {
			return
		}
		matched = mu.Map
		sites = append(sites, w.pos(mu.Pos()))
		if !ka.hasFieldNamed("Globs") {
			viol = fmt.Sprintf("%s: the glob expressions are not PackageFacadeConfig.Globs", w.pos(mu.Pos()))
		}
	})
	if matched == nil {
		r.add("C20.d", "fieldflow", iwg+":matched-set", "the set of matched files is built from the configured globs", []string{iwg}, sites, "no map keyed by FilepathGlob results found in initWithGlobs")
		return
	}
	r.add("C20.d", "fieldflow", iwg+":matched-set", "the set of matched files is built from doublestar.FilepathGlob over the configured globs", []string{iwg}, sites, viol)

	// (2) completeness: no insertion into the matched set is reachable after it was handed to the loader
	{
		viol := ""
		var sites []string
		var uses []ssa.Instruction
		allInstrs(fi.SSA, false, func(_ *ssa.Function, _ *ssa.BasicBlock, _ int, ins ssa.Instruction) {
			switch x := ins.(type) {
			case ssa.CallInstruction:
				for _, a := range x.Common().Args {
					if a == matched {
						uses = append(uses, ins)
					}
				}
			case *ssa.Store:
				if x.Val == matched {
					uses = append(uses, ins)
				}
			}
		})
		if len(uses) == 0 {
			viol = "the matched set is never used as a filter"
		}
		for _, u := range uses {
			sites = append(sites, w.pos(u.Pos()))
			// a call consuming the set must not be followed (on any path) by an insertion
			if _, isCall := u.(ssa.CallInstruction); !isCall {
				continue
			}
			reach := reachableBlocksFrom(u.Block())
			allInstrs(fi.SSA, false, func(_ *ssa.Function, b *ssa.BasicBlock, _ int, ins ssa.Instruction) {
				mu, ok := ins.(*ssa.MapUpdate)
				if !ok || mu.Map != matched {
					return
				}
				if reach[b] && (b != u.Block() || inLoop(b)) || (b == u.Block() && instrIndex(ins) > instrIndex(u)) {
					viol = fmt.Sprintf("%s: files are still being added to the matched set (%s) after it was handed to the package loader: files matched by a later glob expression are filtered out of packages loaded earlier, so their controllers silently disappear", w.pos(u.Pos()), w.pos(mu.Pos()))
				}
			})
		}
		o := r.add("C20.d", "no-reorder", iwg+":filter-complete-before-use", "the relevant-files filter is complete (all globs expanded) before any package is loaded with it", []string{iwg}, sites, viol)
		o.NonTrivial = true
	}

	checkGlobSources(c, r, "C20.d", fi, matched)
	// (4) the pipeline and the controller visitor walk GetAllSourceFiles (and nothing else)
	ruleWhoCalls(c, r, "C20.d", func(n string) bool { return n == "go/ast.Walk" }, "ast.Walk",
		[]string{"(*core/pipeline.GleecePipeline).GenerateGraph"}, 1, "source files are only walked by GenerateGraph, over GetAllSourceFiles()")
	if gg := need(c, r, "C20.d", "(*core/pipeline.GleecePipeline).GenerateGraph"); gg != nil {
		viol := "ast.Walk is not applied to the elements of GetAllSourceFiles()"
		var sites []string
		for _, cl := range callsIn(gg.SSA, false, nameIs("go/ast.Walk")) {
			sites = append(sites, w.pos(cl.Pos()))
			a := sliceOf(cl.Common().Args[1])
			for k := range a.Calls {
				if strings.HasSuffix(k, ".GetAllSourceFiles") {
					viol = ""
				}
			}
		}
		r.add("C20.d", "fieldflow", gg.Key+":walks-source-files", "GenerateGraph walks exactly the facade's source files", []string{gg.Key}, sites, viol)
	}
}

// phiLeaves expands nested phis into their non-phi operands.
func phiLeaves(v ssa.Value) []ssa.Value {
	var out []ssa.Value
	seen := map[ssa.Value]bool{}
	var walk func(v ssa.Value)
	walk = func(v ssa.Value) {
		if seen[v] {
			return
		}
		seen[v] = true
		if p, ok := v.(*ssa.Phi); ok {
			for _, e := range p.Edges {
				walk(e)
			}
			return
		}
		out = append(out, v)
	}
	walk(v)
	return out
}

func isCommaOk(v ssa.Value) bool {
	ex, ok := v.(*ssa.Extract)
	if !ok || ex.Index != 1 {
		return false
	}
	switch t := ex.Tuple.(type) {
	case *ssa.Lookup:
		return t.CommaOk
	}
	return false
}

func instrIndex(ins ssa.Instruction) int {
	for i, x := range ins.Block().Instrs {
		if x == ins {
			return i
		}
	}
	return -1
}

func reachableBlocksFrom(b *ssa.BasicBlock) map[*ssa.BasicBlock]bool {
	seen := map[*ssa.BasicBlock]bool{}
	var st []*ssa.BasicBlock
	st = append(st, b.Succs...)
	for len(st) > 0 {
		x := st[len(st)-1]
		st = st[:len(st)-1]
		if seen[x] {
			continue
		}
		seen[x] = true
		st = append(st, x.Succs...)
	}
	return seen
}

func inLoop(b *ssa.BasicBlock) bool { return reachableBlocksFrom(b)[b] }

// fieldStoresByName: stores to <pkg>.<type>.<field> anywhere in the repo.
func (w *World) fieldStoresByName(relPkg, typ, field string) []*ssa.Store {
	var out []*ssa.Store
	nt := w.lookupType(relPkg, typ)
	if nt == nil {
		return nil
	}
	for _, fn := range w.SSAFuncs {
		allInstrsLocal(fn, true, func(_ *ssa.Function, _ *ssa.BasicBlock, _ int, ins ssa.Instruction) {
			st, ok := ins.(*ssa.Store)
			if !ok {
				return
			}
			fa, ok := st.Addr.(*ssa.FieldAddr)
			if !ok {
				return
			}
			if n, ok := derefNamed(fa.X.Type()); !ok || n.Obj() != nt.Obj() {
				return
			}
			if f := structFieldVar(fa.X.Type(), fa.Field); f != nil && f.Name() == field {
				out = append(out, st)
			}
		})
	}
	return out
}

// checkConfigLiveness: every json-tagged field of the configuration closure is read
// somewhere outside package definitions (a field nobody reads cannot be honoured).
func checkConfigLiveness(c *Ctx, r *Report, fields []cfgField) {
	w := c.W
	read := map[*types.Var]string{}
	for _, p := range w.Pkgs {
		if short(p.PkgPath) == "definitions" {
			continue
		}
		for _, f := range p.Syntax {
			ast.Inspect(f, func(n ast.Node) bool {
				se, ok := n.(*ast.SelectorExpr)
				if !ok {
					return true
				}
				if sel := p.TypesInfo.Selections[se]; sel != nil && sel.Kind() == types.FieldVal {
					if v, ok := sel.Obj().(*types.Var); ok {
						if _, dup := read[v]; !dup {
							read[v] = w.pos(se.Pos())
						}
					}
				}
				return true
			})
		}
	}
	// template reads count as reads of the configuration sections passed in the context
	tplRead := map[string]bool{}
	for _, en := range c.T.Order {
		for _, rd := range c.T.Engines[en].Reads {
			for _, f := range rd.Fields {
				tplRead[f] = true
			}
		}
	}
	allowed := map[string]string{}
	var sites []string
	viol := ""
	n := 0
	for _, f := range fields {
		if !f.Var.Exported() || f.Tag.Get("json") == "-" {
			continue // not configurable
		}
		n++
		q := ownerName(f.Owner) + "." + f.Var.Name()
		if pos, ok := read[f.Var]; ok {
			sites = append(sites, pos)
			continue
		}
		if tplRead[q] {
			continue
		}
		if _, ok := allowed[q]; ok {
			continue
		}
		viol = fmt.Sprintf("%s: configuration field %s (%s) is declared and documented but never read by gleece: whatever the user configures there is ignored", w.pos(f.Var.Pos()), f.Path, q)
	}
	if n < 40 {
		viol = fmt.Sprintf("only %d configuration fields enumerated (floor 40)", n)
	}
	o := r.add("C20.f", "readset", "config-fields⊆read-by-generator", fmt.Sprintf("each of the %d configuration fields is read by non-definitions code or by a template", n), []string{"definitions.GleeceConfig"}, sites, viol)
	o.NonTrivial = true
}

// checkGlobSources: GetAllSourceFiles yields only glob-matched files - on the first and on
// every later analysis (shared by C20.d and C19.b).
func checkGlobSources(c *Ctx, r *Report, clause string, fi *FuncInfo, matched ssa.Value) {
	w := c.W
	const iwg = "(*core/arbitrators.PackagesFacade).initWithGlobs"
	// (3) only matched files are walked: filter at registration (every registerParsedFile
	// is dominated by a membership test in a non-nil filter) or filter at the walk
	// (GetAllSourceFiles appends only members of a field that holds the matched set).
	{
		viol := ""
		var sites []string
		okWalk := false
		const gasf = "(*core/arbitrators.PackagesFacade).GetAllSourceFiles"
		var filterField string
		allInstrs(fi.SSA, false, func(_ *ssa.Function, _ *ssa.BasicBlock, _ int, ins ssa.Instruction) {
			if st, ok := ins.(*ssa.Store); ok && st.Val == matched {
				if fa, ok := st.Addr.(*ssa.FieldAddr); ok {
					if f := structFieldVar(fa.X.Type(), fa.Field); f != nil {
						filterField = f.Name()
						sites = append(sites, w.pos(st.Pos()))
					}
				}
			}
		})
		if gf := w.fn(gasf); gf != nil && filterField != "" {
			// every append of a file name in GetAllSourceFiles's first loop is guarded by membership in filterField
			nApp := 0
			guarded := 0
			allInstrs(gf.SSA, false, func(_ *ssa.Function, _ *ssa.BasicBlock, _ int, ins ssa.Instruction) {
				cl, ok := ins.(*ssa.Call)
				if !ok || calleeName(cl) != "builtin.append" {
					return
				}
				// appends of what the iteration over the map of known files yields (a file name, the
				// file, or a pair of both) - not the later re-ordering of what was selected
				if len(cl.Call.Args) < 2 || !dependsOnMapRangeOf(cl.Call.Args[1], "files", 0, map[ssa.Value]bool{}) {
					return
				}
				nApp++
				sites = append(sites, w.pos(cl.Pos()))
				for _, f := range guardsOf(cl) {
					cnd, p := unwrapNot(f.Cond, f.Pol)
					a := sliceOf(cnd)
					if p && a.hasFieldNamed(filterField) && isCommaOk(cnd) {
						guarded++
						return
					}
				}
			})
			if nApp > 0 && nApp == guarded {
				okWalk = true
			}
			// the field must have no other writer that could widen it
			for _, st := range w.fieldStoresByName("core/arbitrators", "PackagesFacade", filterField) {
				fnk := fnShort(st.Parent())
				if fnk != iwg && fnk != "core/arbitrators.NewPackagesFacade" {
					okWalk = false
					viol = fmt.Sprintf("%s: %s also writes PackagesFacade.%s", w.pos(st.Pos()), fnk, filterField)
				}
			}
			// and no map insert into it outside initWithGlobs
			for _, fn := range w.SSAFuncs {
				if fn.Pkg == nil || short(fn.Pkg.Pkg.Path()) != "core/arbitrators" || fnShort(fn) == iwg {
					continue
				}
				allInstrs(fn, true, func(_ *ssa.Function, _ *ssa.BasicBlock, _ int, ins ssa.Instruction) {
					if mu, ok := ins.(*ssa.MapUpdate); ok && sliceOf(mu.Map).hasFieldNamed(filterField) {
						okWalk = false
						viol = fmt.Sprintf("%s: %s inserts into PackagesFacade.%s", w.pos(mu.Pos()), fnShort(fn), filterField)
					}
				})
			}
		}
		okReg := false
		if !okWalk && viol == "" {
			// filter at registration: cachePackage's registerParsedFile dominated by membership, and the filter never nil
			const cp = "(*core/arbitrators.PackagesFacade).cachePackage"
			if cf := w.fn(cp); cf != nil && len(cf.SSA.Params) == 3 {
				filt := cf.SSA.Params[2]
				all := true
				n := 0
				for _, cl := range callsIn(cf.SSA, false, nameIs("(*core/arbitrators.PackagesFacade).registerParsedFile")) {
					n++
					sites = append(sites, w.pos(cl.Pos()))
					g := false
					for _, f := range guardsOf(cl) {
						cnd, p := unwrapNot(f.Cond, f.Pol)
						if p && isCommaOk(cnd) && sliceReaches(cnd, filt) {
							g = true
						}
					}
					if !g {
						all = false
					}
				}
				okReg = all && n > 0
				if okReg {
					// the nil bypass must be gone: no caller passes a nil filter
					for _, cl := range w.callersOf(nameIs("(*core/arbitrators.PackagesFacade).loadAndCacheExpressions")) {
						if k, ok := cl.Common().Args[len(cl.Common().Args)-1].(*ssa.Const); ok && k.IsNil() {
							okReg = false
							sites = append(sites, w.pos(cl.Pos()))
						}
					}
				}
			}
		}
		if !okWalk && !okReg && viol == "" {
			viol = "files outside controllerGlobs can become sources: registerParsedFile is reached without a membership test when the filter is nil (GetPackages -> loadAndCacheExpressions(.., nil), e.g. for a dot-imported package), and GetAllSourceFiles does not restrict itself to the glob-matched set; on the next analysis of the session such files are walked and their controllers contribute"
		}
		o := r.add(clause, "guardedby", "packages-facade:only-glob-matched-files-are-sources", "GetAllSourceFiles yields only files matched by the configured globs (filter at the walk, or at every registration)", []string{gasf, iwg}, sites, viol)
		o.NonTrivial = true
	}
}

// checkCommandExitStatus: a cobra Run callback of package cmd that gets an error from what it
// runs ends the process with a non-zero status: on the `err != nil` side every way to the
// callback's return passes os.Exit(k), k != 0. (gleece's logger.Fatal only logs.)
func checkCommandExitStatus(c *Ctx, r *Report, clause string) {
	w := c.W
	errT := types.Universe.Lookup("error").Type()
	n := 0
	var sites []string
	viol := ""
	for _, fn := range w.SSAFuncs {
		if fn.Pkg == nil || short(fn.Pkg.Pkg.Path()) != "cmd" || fn.Blocks == nil {
			continue
		}
		sig := fn.Signature
		isCallback := sig.Params().Len() == 2 && strings.HasSuffix(sig.Params().At(0).Type().String(), "cobra.Command") &&
			(sig.Results().Len() == 0 || (sig.Results().Len() == 1 && types.Identical(sig.Results().At(0).Type(), errT)))
		// ... and cmd.Execute, which turns an error of the command tree into the exit status
		isExecute := fnShort(fn) == "cmd.Execute"
		if !isCallback && !isExecute {
			continue
		}
		returnsErr := sig.Results().Len() == 1
		// error values obtained in the callback
		for _, b := range fn.Blocks {
			for _, ins := range b.Instrs {
				call, ok := ins.(*ssa.Call)
				if !ok {
					continue
				}
				rs := call.Call.Signature().Results()
				if rs.Len() == 0 || !types.Identical(rs.At(rs.Len()-1).Type(), errT) {
					continue
				}
				if nm := calleeName(call); nm != "" && !isGleeceCallee(nm) && nm != "(*github.com/spf13/cobra.Command).Execute" {
					continue // printing to the command's output etc.
				}
				var errV ssa.Value = call
				if rs.Len() > 1 {
					errV = nil
					if call.Referrers() != nil {
						for _, rr := range *call.Referrers() {
							if ex, ok := rr.(*ssa.Extract); ok && ex.Index == rs.Len()-1 {
								errV = ex
							}
						}
					}
				}
				n++
				sites = append(sites, w.pos(call.Pos()))
				tested := false
				if errV != nil && errV.Referrers() != nil {
					for _, rr := range *errV.Referrers() {
						bo, ok := rr.(*ssa.BinOp)
						if !ok || (bo.Op != token.NEQ && bo.Op != token.EQL) || bo.Referrers() == nil {
							continue
						}
						for _, r2 := range *bo.Referrers() {
							ifi, ok := r2.(*ssa.If)
							if !ok {
								continue
							}
							tested = true
							nonNil := ifi.Block().Succs[0]
							if bo.Op == token.EQL {
								nonNil = ifi.Block().Succs[1]
							}
							// reach a return from nonNil without passing os.Exit(k != 0)?
							seen := map[*ssa.BasicBlock]bool{}
							work := []*ssa.BasicBlock{nonNil}
							for len(work) > 0 {
								cur := work[len(work)-1]
								work = work[:len(work)-1]
								if seen[cur] {
									continue
								}
								seen[cur] = true
								exits := false
								for _, in := range cur.Instrs {
									if cl, ok := in.(ssa.CallInstruction); ok && calleeName(cl) == "os.Exit" && len(cl.Common().Args) == 1 {
										if k, ok := cl.Common().Args[0].(*ssa.Const); ok && k.Value != nil && k.Int64() != 0 {
											exits = true
										}
									}
								}
								if exits {
									continue
								}
								if ret, isRet := cur.Instrs[len(cur.Instrs)-1].(*ssa.Return); isRet {
									if returnsErr {
										// a RunE callback: handing the error back makes cobra's Execute fail
										failing := false
										for _, ex := range exitsOf(fn) {
											if ex.Ret == ret && ex.Kind == exitFailure {
												failing = true
											}
										}
										if len(ret.Results) == 1 && (failing || provablyNonNil(ret.Results[0], cur) || ret.Results[0] == errV) {
											continue
										}
									}
									viol = fmt.Sprintf("%s: the command callback %s can return after %s failed without os.Exit(non-zero): the failure is logged but the process exits 0, so scripts and CI take a rejected project for a successful generation", w.pos(call.Pos()), fnShort(fn), calleeDesc(call))
								}
								work = append(work, cur.Succs...)
							}
						}
					}
				}
				if !tested {
					viol = fmt.Sprintf("%s: the command callback %s does not test the error of %s", w.pos(call.Pos()), fnShort(fn), calleeDesc(call))
				}
			}
		}
	}
	// (vacuity floor: the root command, at least one generate callback - the three may share one
	// closure built by a factory - and Execute)
	if n < 3 {
		viol = fmt.Sprintf("expected the error-returning calls of the root, the generate sub-commands' callback(s) and Execute, found %d", n)
	}
	if len(sites) == 0 {
		sites = []string{"cmd:0"}
	}
	o := r.add(clause, "mustcall", "cmd:failure-exits-non-zero", "a generate sub-command whose work fails ends the process with a non-zero status", []string{"cmd"}, sites, viol)
	o.NonTrivial = true
}

func calleeDesc(c *ssa.Call) string {
	if n := calleeName(c); n != "" {
		return n
	}
	return "the function value it was given"
}

// checkConfigDecodedIntoZero: the configuration file is decoded into a zero GleeceConfig. The
// `required` constraints are checked on the decoded value: a destination that already holds
// values makes an omitted required key look present.
func checkConfigDecodedIntoZero(c *Ctx, r *Report, clause string) {
	w := c.W
	fi := need(c, r, clause, "cmd.LoadGleeceConfig")
	if fi == nil {
		return
	}
	viol := ""
	var sites []string
	n := 0
	for _, cl := range callsIn(fi.SSA, true, func(n string) bool {
		return n == "github.com/titanous/json5.Unmarshal" || n == "encoding/json.Unmarshal"
	}) {
		n++
		sites = append(sites, w.pos(cl.Pos()))
		args := cl.Common().Args
		if len(args) != 2 {
			continue
		}
		dst := args[1]
		if mi, ok := dst.(*ssa.MakeInterface); ok {
			dst = mi.X
		}
		al, ok := dst.(*ssa.Alloc)
		if !ok {
			viol = fmt.Sprintf("%s: the configuration is decoded into something else than a fresh local GleeceConfig", w.pos(cl.Pos()))
			continue
		}
		for _, sv := range storedInto(al, 0) {
			if k, isK := sv.(*ssa.Const); isK && (k.Value == nil || isZeroConst(k)) {
				continue
			}
			viol = fmt.Sprintf("%s: the GleeceConfig the file is decoded into is pre-populated (%s is stored into it): a required key that the file omits keeps that value and passes validation, so an incomplete configuration is accepted and honoured with values the user never wrote", w.pos(cl.Pos()), sv)
		}
	}
	if n != 1 {
		viol = fmt.Sprintf("expected one Unmarshal of the configuration in LoadGleeceConfig, found %d", n)
	}
	if len(sites) == 0 {
		sites = []string{w.pos(fi.Decl.Pos())}
	}
	r.add(clause, "guardedby", "cmd.LoadGleeceConfig:decoded-into-zero-value", "the configuration file is decoded into a zero GleeceConfig, so `required` means: written in the file", []string{fi.Key}, sites, viol)
}

// dependsOnMapRangeOf: v is computed from the key/value a `range` over the map held in struct
// field `field` yields.
func dependsOnMapRangeOf(v ssa.Value, field string, depth int, seen map[ssa.Value]bool) bool {
	if v == nil || seen[v] || depth > 12 {
		return false
	}
	seen[v] = true
	switch x := v.(type) {
	case *ssa.Next:
		if rg, ok := x.Iter.(*ssa.Range); ok {
			return sliceOf(rg.X).hasFieldNamed(field)
		}
		return false
	case *ssa.Alloc:
		for _, sv := range storedInto(x, 0) {
			if dependsOnMapRangeOf(sv, field, depth+1, seen) {
				return true
			}
		}
		return false
	case *ssa.Call, *ssa.Lookup, *ssa.Parameter, *ssa.Global, *ssa.Const, *ssa.FreeVar:
		return false
	}
	if ins, ok := v.(ssa.Instruction); ok {
		for _, op := range ins.Operands(nil) {
			if *op != nil && dependsOnMapRangeOf(*op, field, depth+1, seen) {
				return true
			}
		}
	}
	return false
}

// validationRegistrations: the (rule name, validator function) pairs initValidator registers -
// written as direct RegisterValidation("name", fn) calls, or as rows of a local table of
// {tag, validate} structs that a loop registers.
type validationReg struct {
	Tag string
	Fn  ast.Expr
	Pos token.Pos
}

func (w *World) validationRegistrations(fi *FuncInfo) []validationReg {
	var out []validationReg
	info := fi.Pkg.TypesInfo
	fd := w.defsOf(fi)
	w.inspectRegion(fi, func(n ast.Node) bool {
		cl, ok := n.(*ast.CallExpr)
		if !ok || len(cl.Args) != 2 || !strings.HasSuffix(calleeOfCall(info, cl), ".Validate).RegisterValidation") {
			return true
		}
		if tv, ok := info.Types[cl.Args[0]]; ok && tv.Value != nil {
			out = append(out, validationReg{constString(tv.Value), cl.Args[1], cl.Pos()})
			return true
		}
		// RegisterValidation(row.tag, row.validate) with row ranging over a slice literal of structs
		tagSel, ok1 := ast.Unparen(cl.Args[0]).(*ast.SelectorExpr)
		fnSel, ok2 := ast.Unparen(cl.Args[1]).(*ast.SelectorExpr)
		if !ok1 || !ok2 {
			return true
		}
		rowId, ok := ast.Unparen(tagSel.X).(*ast.Ident)
		if !ok || exprString(fnSel.X) != rowId.Name {
			return true
		}
		ranged, ok := fd.rangeOf[info.Uses[rowId]]
		if !ok {
			return true
		}
		var table *ast.CompositeLit
		switch t := ast.Unparen(ranged).(type) {
		case *ast.CompositeLit:
			table = t
		case *ast.Ident:
			for _, d := range fd.defs[info.Uses[t]] {
				if c, ok := ast.Unparen(d).(*ast.CompositeLit); ok {
					table = c
				}
			}
		}
		if table == nil {
			return true
		}
		st, _ := info.TypeOf(tagSel.X).Underlying().(*types.Struct)
		fieldIdx := func(name string) int {
			if st != nil {
				for i := 0; i < st.NumFields(); i++ {
					if st.Field(i).Name() == name {
						return i
					}
				}
			}
			return -1
		}
		ti, fi2 := fieldIdx(tagSel.Sel.Name), fieldIdx(fnSel.Sel.Name)
		for _, row := range table.Elts {
			rc, ok := row.(*ast.CompositeLit)
			if !ok {
				continue
			}
			var tagE, fnE ast.Expr
			for i, el := range rc.Elts {
				if kv, ok := el.(*ast.KeyValueExpr); ok {
					switch exprString(kv.Key) {
					case tagSel.Sel.Name:
						tagE = kv.Value
					case fnSel.Sel.Name:
						fnE = kv.Value
					}
				} else {
					if i == ti {
						tagE = el
					}
					if i == fi2 {
						fnE = el
					}
				}
			}
			if tagE != nil && fnE != nil {
				if tv, ok := info.Types[tagE]; ok && tv.Value != nil {
					out = append(out, validationReg{constString(tv.Value), fnE, rc.Pos()})
				}
			}
		}
		return true
	})
	return out
}
