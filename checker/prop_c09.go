package main

import (
	"fmt"
	"go/ast"
	"go/constant"
	"go/token"
	"slices"
	"sort"
	"strings"

	hast "github.com/aymerick/raymond/ast"
	"golang.org/x/tools/go/ssa"
)

func init() {
	register("C09", "Static structural obligations for 'every accepted project yields a routes file that is compilable Go': GenerateRoutes may only write what the import optimiser/formatter returned successfully (a formatter failure must be an error), OptimizeImportsAndFormat succeeds only if imports.Process and format.Source did, the five template sets are closed and every path/helper/partial resolves with the right arity, the import-alias spelling agrees between the writer (pipeline.getImports) and the readers (templates, helper), generated identifiers are declared with the same spelling they are used with, import serials are allocated from one shared provider, and package clause / auth import come from configuration. Decides gleece's side; type-correctness of generated code for every user project is not decided.", checkC09)
}

func checkC09(c *Ctx, r *Report) {
	defer checkEngineMapsCloned(c, r, "C09.c")
	defer checkContainerFields(c, r, "C09.c")
	defer checkProcessWideState(c, r, "C09.c")
	w := c.W
	r.NotDecided = append(r.NotDecided, "type-correctness of the generated code for every project (depends on user type and parameter names)", "what goimports/gofmt accept")
	r.Assume = append(r.Assume, "imports.Process and format.Source return an error for syntactically invalid Go")

	// ---- C09.a only formatted code is written
	const gr = "generator/routes.GenerateRoutes"
	const oif = "generator/compilation.OptimizeImportsAndFormat"
	ruleWriteAfterOK(c, r, "C09.a", gr, oif, "the routes file is written only after OptimizeImportsAndFormat succeeded (an unformattable rendering is an error, not an artifact)")
	if fi := need(c, r, "C09.a", gr); fi != nil {
		viol := ""
		var sites []string
		fws := w.fileWritesOf(fi.SSA, 0)
		for _, fw := range fws {
			sites = append(sites, w.pos(fw.Site.Pos()))
			// the data operand is the formatter's first result itself (through conversions only):
			// no phi that could merge the raw rendering back in
			for _, data := range w.originValues(fw.Data) {
				if k, isConst := data.(*ssa.Const); isConst && (k.IsNil() || (k.Value != nil && k.Value.Kind() == constant.String && constant.StringVal(k.Value) == "")) {
					continue // the error path of a helper that returns (nil | "", err): never written (guarded above)
				}
				ex, ok := data.(*ssa.Extract)
				if !ok || ex.Index != 0 {
					viol = fmt.Sprintf("%s: the bytes written (%s) are not simply the first result of OptimizeImportsAndFormat (%T): e.g. a fallback to / a copy of the raw raymond.Render output after a formatter failure leaves a syntactically invalid file at the output path", w.pos(fw.Site.Pos()), fw.Via, data)
				} else if cl, ok := ex.Tuple.(*ssa.Call); !ok || calleeName(cl) != oif {
					viol = fmt.Sprintf("%s: the bytes written are not the result of OptimizeImportsAndFormat", w.pos(fw.Site.Pos()))
				}
			}
			pa := fw.PathAtoms
			if !pa.hasFieldNamed("OutputPath") || !pa.hasFieldNamed("RoutesConfig") {
				viol = fmt.Sprintf("%s: output path is not RoutesConfig.OutputPath", w.pos(fw.Site.Pos()))
			}
			if !fw.Truncates {
				viol = fmt.Sprintf("%s: the routes file is written with %s without O_TRUNC: a shorter regeneration leaves stale code behind the new file", w.pos(fw.Site.Pos()), fw.Via)
			}
		}
		if len(fws) != 1 {
			viol = fmt.Sprintf("expected one file write in %s, found %d", gr, len(fws))
			for _, fw := range fws {
				if _, isEx := stripTrivial(fw.Data).(*ssa.Extract); !isEx && len(w.originValues(fw.Data)) > 0 {
					viol = fmt.Sprintf("%s: %s writes %d files; the one at %s (%s) does not carry the formatter's output: an unformattable rendering still leaves a file at the output path", w.pos(fw.Site.Pos()), gr, len(fws), w.pos(fw.Site.Pos()), fw.Via)
				}
			}
		}
		o := r.add("C09.a", "fieldflow", gr+":WriteFile(data)", "what is written is exactly the optimiser/formatter output", []string{gr}, sites, viol)
		o.NonTrivial = true
	}
	ruleErrPropagates(c, r, "C09.a", gr, oif, -1, "a formatting failure makes GenerateRoutes fail")
	ruleMustCallOK(c, r, "C09.a", oif, "golang.org/x/tools/imports.Process", -1, "OptimizeImportsAndFormat succeeds only if imports.Process did")
	ruleMustCallOK(c, r, "C09.a", oif, "go/format.Source", -1, "OptimizeImportsAndFormat succeeds only if format.Source did")
	ruleErrPropagates(c, r, "C09.a", gr, pkgRaymond+".Render", -1, "a rendering failure makes GenerateRoutes fail")
	ruleErrPropagates(c, r, "C09.a", gr, "generator/routes.registerPartials", -1, "a template override/extension that cannot be loaded makes GenerateRoutes fail")

	// ---- C09.b templates closed and well typed
	for _, en := range c.T.Order {
		eng := c.T.Engines[en]
		viol := ""
		if len(eng.Problems) > 0 {
			viol = fmt.Sprintf("%s: %d template constructs do not resolve (raymond renders an unresolved path as empty text and panics on a wrong helper arity), first: %s", en, len(eng.Problems), eng.Problems[0])
		}
		if len(eng.UnusedVars) > 0 {
			viol = fmt.Sprintf("%s: embedded templates %v are not registered as partials", en, eng.UnusedVars)
		}
		var sites []string
		sites = append(sites, eng.Routes.File+":1")
		for _, t := range eng.Partials {
			sites = append(sites, t.File+":1")
		}
		o := r.add("C09.b", "tpl-types", en+":templates-resolve", fmt.Sprintf("%s: all %d context reads, %d helper calls and %d partial invocations resolve against routes.RoutesContext / the registered helpers / the partial table", en, len(eng.Reads), len(eng.Helpers), len(eng.Invokes)), []string{eng.PkgRel}, sites, viol)
		o.NonTrivial = true
	}
	{
		// every helper the templates call is registered, and no registered helper shadows a context field
		viol := ""
		used := map[string]bool{}
		for _, en := range c.T.Order {
			for _, h := range c.T.Engines[en].Helpers {
				used[h.Helper] = true
			}
		}
		for h := range used {
			if c.T.Helpers[h] == nil && !raymondBuiltins[h] {
				viol = "helper " + h + " is used by a template but not registered"
			}
		}
		var sites []string
		for _, h := range c.T.Helpers {
			sites = append(sites, h.Pos)
		}
		for _, en := range c.T.Order {
			for _, rd := range c.T.Engines[en].Reads {
				if c.T.Helpers[rd.Path] != nil {
					viol = fmt.Sprintf("context path %q in %s %s is shadowed by a helper of the same name", rd.Path, en, rd.Tpl)
				}
			}
		}
		r.add("C09.b", "setagree", "helpers:used⊆registered", "every helper used by a template is registered in registerHandlebarsHelpers; none shadows a context field", []string{"generator/routes.registerHandlebarsHelpers"}, sites, viol)
	}

	// ---- C09.c import aliases: writer vs readers
	checkImportAliases(c, r)

	// ---- C09.d package clause / auth import
	for _, en := range c.T.Order {
		eng := c.T.Engines[en]
		viol := ""
		got := map[string]string{}
		for _, rd := range eng.Reads {
			if rd.Path == "PackageName" || rd.Path == "AuthConfig.AuthFileFullPackageName" {
				got[rd.Path] = strings.Join(rd.Fields, ">")
			}
		}
		if got["PackageName"] != "generator/routes.RoutesContext.PackageName" {
			viol = en + ": the package clause is not RoutesContext.PackageName"
		}
		if got["AuthConfig.AuthFileFullPackageName"] != "generator/routes.RoutesContext.AuthConfig>definitions.AuthorizationConfig.AuthFileFullPackageName" {
			viol = en + ": the authorization import is not AuthConfig.AuthFileFullPackageName"
		}
		src := flattenProgram(eng.Routes.Prog, nil)
		if tokSeqIndex(goToks(src), "package", "M_PackageName") < 0 {
			viol = en + ": routes.hbs does not start its code with `package {{{PackageName}}}`"
		}
		r.add("C09.d", "tpl-types", en+":package+auth-import", en+": package clause and RequestAuth import come from the configuration", []string{eng.Routes.File}, []string{eng.Routes.File + ":1"}, viol)
	}
	checkPackageNameVerbatim(c, r, "C09.d")
	// which result types are accepted as the operation's error: the templates assign the value to an
	// `error` variable and compare it with nil, which compiles for `error` itself and for structs
	// that EMBED error (value and pointer alike) - not for a type that merely has an Error() method
	// on a pointer receiver. The predicate is exactly "is error, or embeds error".
	ruleHelperShape(c, r, "C09.b", helperShape{Fn: "core/metadata.isErrorEmbedding", AllowedCalls: []string{"gast.DoesStructEmbedType"}, MustConsts: []string{"error"},
		Why: "an accepted error return type is `error` or a struct embedding it; anything looser makes the generated `var opError error = …` fail to compile for some accepted project"})

	// ---- C09.e generated identifiers: every use has a declaration with the same spelling
	checkGeneratedIdentifiers(c, r)
	checkDeclaredWhereCalled(c, r, "C09.e")
	checkTypeSwitchArms(c, r, "C09.e")
	ruleResultShapes(c, r, "C09.e", "core/metadata")
	checkConversionArms(c, r, "C09.e")
	// the Go type the templates spell for a parameter or result is the declared type's own string
	// (a synthesized model name - `PageItem` for `Page[Item]` - is not a Go type of the user's package)
	ruleFieldFlow(c, r, ffSpec{Clause: "C09.e", Fn: "(core/metadata.TypeUsageMeta).Reduce", Owner: c.W.lookupType("definitions", "TypeMetadata"), Field: "Name",
		Must: []string{"core/metadata.TypeUsageMeta.Root"}, MustCalls: []string{"(core/metadata.TypeRef).SimpleTypeString"}, MinSinks: 2,
		Desc: "TypeMetadata.Name = Root.SimpleTypeString()"})
	checkIterableOnlyInQuery(c, r)

	// ---- C09.g identifiers spelled from annotation values are validated as written
	checkVerbTestedAsWritten(c, r, "C09.g")

	// ---- C09.f one shared serial provider
	checkSharedProvider(c, r, "C09.f")

	ruleEarlyExitInventory(c, r, "C09.c", 1, "core/pipeline", "generator/routes")
	// positional data (call arguments) keeps declaration order: no unreviewed sort on the way
	ruleSortInventory(c, r, "C09.e", "core/metadata", "core/pipeline", "generator/routes")
	// every element filter in these packages is a reviewed one
	ruleSkipInventory(c, r, "C09.c", loadSkipTable(c.VerifDir), 3, "core/pipeline", "generator/routes", "core/arbitrators")
	ruleDecisionInputs(c, r, "C09.c", "core/arbitrators")
}

// checkImportAliases: "Param%d%s" / "Response%d%s" in pipeline.appendRouteImports vs the
// template spelling Param{{{UniqueImportSerial}}}{{{Name}}}. and the helper's literal.
func checkImportAliases(c *Ctx, r *Report) {
	w := c.W
	const ari = "(*core/pipeline.GleecePipeline).appendRouteImports"
	fi := need(c, r, "C09.c", ari)
	if fi == nil {
		return
	}
	info := fi.Pkg.TypesInfo
	// alias spellings, however the string is put together (Sprintf, concatenation, builder)
	type aliasFmt struct {
		Args []ast.Expr
		Pos  token.Pos
	}
	lits := map[string]aliasFmt{}
	for _, sh := range w.stringShapes(fi) {
		if len(sh.Args) == 2 {
			lits[sh.Tmpl] = aliasFmt{sh.Args, sh.Pos}
		}
		// the prefix factored out into a parameter of a new function: Sprintf("%s%d%s", prefix, serial, name)
		if sh.Tmpl == "%s%d%s" && len(sh.Args) == 3 {
			if id, isId := ast.Unparen(sh.Args[0]).(*ast.Ident); isId {
				if _, exprs, bound := w.argsBoundTo(info.ObjectOf(id)); bound {
					for _, e := range exprs {
						if p := litString(e); p != "" {
							lits[p+"%d%s"] = aliasFmt{sh.Args[1:], sh.Pos}
						}
					}
				}
			}
		}
	}
	var sites []string
	viol := ""
	pc, okP := lits["Param%d%s"]
	rc, okR := lits["Response%d%s"]
	if !okP || !okR {
		viol = fmt.Sprintf("appendRouteImports no longer builds aliases with the literals \"Param%%d%%s\" / \"Response%%d%%s\" (found %v)", func() []string {
			var ks []string
			for k := range lits {
				ks = append(ks, k)
			}
			sort.Strings(ks)
			return ks
		}())
	} else {
		sites = append(sites, w.pos(pc.Pos), w.pos(rc.Pos))
		a1, a2 := w.exprAtoms(fi, pc.Args[0]), w.exprAtoms(fi, pc.Args[1])
		if !a1.Fields["definitions.FuncParam.UniqueImportSerial"] || !a2.Fields["definitions.ParamMeta.Name"] {
			viol = "parameter alias is not Param<FuncParam.UniqueImportSerial><ParamMeta.Name>"
		}
		b1, b2 := w.exprAtoms(fi, rc.Args[0]), w.exprAtoms(fi, rc.Args[1])
		if !b1.Fields["definitions.FuncReturnValue.UniqueImportSerial"] || !b2.Fields["definitions.TypeMetadata.Name"] {
			viol = "response alias is not Response<FuncReturnValue.UniqueImportSerial><TypeMetadata.Name>"
		}
	}
	// readers: templates
	nAlias := 0
	for _, en := range c.T.Order {
		eng := c.T.Engines[en]
		for _, pn := range []string{"RequestArgsParsing", "RequestSwitchParamType"} {
			t := eng.Partials[pn]
			if t == nil {
				continue
			}
			src := flattenProgram(t.Prog, nil)
			sites = append(sites, t.File+":1")
			// every alias spelling in these partials is exactly ParamM_UniqueImportSerialM_Name.
			toks := goToks(src)
			for i, tk := range toks {
				if tk.Tok != token.IDENT || !strings.HasPrefix(tk.Lit, "ParamM_") {
					continue
				}
				nAlias++
				if tk.Lit != "ParamM_UniqueImportSerialM_Name" || i+1 >= len(toks) || toks[i+1].Tok != token.PERIOD {
					viol = fmt.Sprintf("%s %s spells a parameter import alias differently from the writer: %q", en, pn, tk.Lit)
				}
			}
		}
		for _, rd := range eng.Reads {
			if (rd.Tpl == "RequestArgsParsing" || rd.Tpl == "RequestSwitchParamType") && rd.Path == "UniqueImportSerial" && strings.Join(rd.Fields, ">") != "definitions.FuncParam.UniqueImportSerial" {
				viol = en + ": UniqueImportSerial in the parsing partials is not the parameter's own serial"
			}
		}
	}
	if nAlias < 5 {
		viol = fmt.Sprintf("only %d parameter alias uses recognised in the parsing partials (floor 5)", nAlias)
	}
	// reader: helper literal
	if hfi := w.fn("generator/routes.registerHandlebarsHelpers"); hfi != nil {
		found := false
		for _, sh := range w.stringShapes(hfi) {
			if !strings.HasPrefix(sh.Tmpl, "Response") || len(sh.Args) < 2 {
				continue
			}
			sites = append(sites, w.pos(sh.Pos))
			found = true
			if sh.Tmpl != "Response%d%s.%s" {
				viol = fmt.Sprintf("%s: helper GetLastTyeFullyQualified spells the response alias %q, the writer \"Response%%d%%s\"", w.pos(sh.Pos), sh.Tmpl)
			}
			a1, a2 := w.exprAtoms(sh.Fi, sh.Args[0]), w.exprAtoms(sh.Fi, sh.Args[1])
			if !a1.Fields["definitions.FuncReturnValue.UniqueImportSerial"] || !a2.Fields["definitions.TypeMetadata.Name"] {
				viol = fmt.Sprintf("%s: helper alias operands are not (UniqueImportSerial, Name)", w.pos(sh.Pos))
			}
		}
		if !found {
			viol = "helper GetLastTyeFullyQualified no longer formats the response alias"
		}
	}
	o := r.add("C09.c", "setagree", "import-alias:writer==readers", "the alias under which a package is imported (pipeline.appendRouteImports) is spelled identically where it is used (templates, GetLastTyeFullyQualified)", []string{ari}, sites, viol)
	o.NonTrivial = true

	// controller alias: imports[controller.PkgPath].Add(controller.Name)
	if gfi := need(c, r, "C09.c", "(*core/pipeline.GleecePipeline).getImports"); gfi != nil {
		viol := "getImports does not register the controller's name as import alias of its package"
		var s2 []string
		w.inspectRegion(gfi, func(n ast.Node) bool {
			cl, ok := n.(*ast.CallExpr)
			if !ok || !strings.HasSuffix(calleeOfCall(gfi.Pkg.TypesInfo, cl), ").Add") || len(cl.Args) != 1 {
				return true
			}
			arg := w.exprAtoms(gfi, cl.Args[0])
			if se, ok := cl.Fun.(*ast.SelectorExpr); ok {
				key := w.exprAtoms(gfi, se.X)
				if arg.Fields["definitions.ControllerMetadata.Name"] && key.Fields["definitions.ControllerMetadata.PkgPath"] {
					viol = ""
					s2 = append(s2, w.pos(cl.Pos()))
				}
			}
			return true
		})
		r.add("C09.c", "fieldflow", gfi.Key+":controller-alias", "each controller's package is imported under the controller's name, which is what `{{{Name}}}.{{../Name}}{}` spells", []string{gfi.Key}, s2, viol)
		ruleEach(c, r, "C09.c", gfi.Key,
			func(fi *FuncInfo) func(ast.Expr) bool { return w.rangeOverType(fi, "[]definitions.ControllerMetadata") }, "controllers",
			func(fi *FuncInfo) func(ast.Node) bool {
				return func(n ast.Node) bool {
					cl, ok := n.(*ast.CallExpr)
					return ok && strings.HasSuffix(calleeOfCall(fi.Pkg.TypesInfo, cl), ").Add")
				}
			}, "imports[pkg].Add(name)", nil, false, "every controller contributes its import")
		ruleEach(c, r, "C09.c", gfi.Key,
			func(fi *FuncInfo) func(ast.Expr) bool {
				return w.rangeOverField(fi, "definitions.ControllerMetadata.Routes")
			}, "controller.Routes",
			func(fi *FuncInfo) func(ast.Node) bool { return w.callPred(fi, ari) }, "appendRouteImports", nil, false, "every route contributes the imports of its parameter and response types")
	}
	// UnpackImportsMap emits `alias "path"` for every entry
	if hfi := w.fn("generator/routes.registerHandlebarsHelpers"); hfi != nil {
		viol := "UnpackImportsMap does not emit `alias \"path\"` lines"
		var s3 []string
		for _, sh := range w.stringShapes(hfi) {
			if sh.Tmpl != "%s \"%s\"\n" || len(sh.Args) != 2 {
				continue
			}
			s3 = append(s3, w.pos(sh.Pos))
			// first the alias (an element of the alias list looked up for the package),
			// then the package path (the key that list was looked up with)
			aliasAt := w.exprAtoms(sh.Fi, sh.Args[0])
			pathAt := w.exprAtoms(sh.Fi, sh.Args[1])
			if aliasAt.Ops["index"] && aliasAt.Ops["range"] && !pathAt.Ops["index"] {
				viol = ""
			}
		}
		r.add("C09.c", "fieldflow", "routes.UnpackImportsMap:format", "imports are emitted as `<alias> \"<package path>\"`", []string{hfi.Key}, s3, viol)
	}
}

func mapKeysCall(m map[string]*ast.CallExpr) []string {
	var out []string
	for k := range m {
		out = append(out, k)
	}
	sort.Strings(out)
	return out
}

// checkGeneratedIdentifiers: inside one parameter's parsing code (RequestArgsParsing with
// its partials expanded) every generated identifier (one that contains a mustache) that is
// used is also declared with exactly the same spelling.
func checkGeneratedIdentifiers(c *Ctx, r *Report) {
	for _, en := range c.T.Order {
		eng := c.T.Engines[en]
		t := eng.Partials["RequestArgsParsing"]
		if t == nil {
			continue
		}
		// expand renders the Go text of p with partials inlined; `{{#if (IsArray ..)}}`
		// blocks are resolved for array=true/false (other blocks: both arms, in order).
		var expand func(p *hast.Program, depth int, array bool) string
		expand = func(p *hast.Program, depth int, array bool) string {
			if p == nil || depth > 4 {
				return ""
			}
			var sb strings.Builder
			for _, st := range p.Body {
				switch n := st.(type) {
				case *hast.ContentStatement:
					sb.WriteString(n.Value)
				case *hast.MustacheStatement:
					sb.WriteString(mustachePlaceholder(n))
				case *hast.PartialStatement:
					if pt := eng.Partials[partialName(n)]; pt != nil {
						sb.WriteString("\n" + expand(pt.Prog, depth+1, array) + "\n")
					} else {
						sb.WriteString("\n")
					}
				case *hast.BlockStatement:
					if isArrayBlock(n) {
						if array {
							sb.WriteString(expand(n.Program, depth, array))
						} else {
							sb.WriteString(expand(n.Inverse, depth, array))
						}
						continue
					}
					sb.WriteString(expand(n.Program, depth, array))
					sb.WriteString(expand(n.Inverse, depth, array))
				}
			}
			return sb.String()
		}
		arms := equalArms(t.Prog, "PassedIn")
		viol := ""
		var sites []string
		nIdent := 0
		var locs []string
		for l := range arms {
			locs = append(locs, l)
		}
		sort.Strings(locs)
		for _, loc := range locs {
			b := arms[loc]
			sites = append(sites, tplSite(t, eng, b.Line))
			// arrays are only accepted in the query (receiver validator, checked below)
			variants := []bool{false}
			if loc == "Query" {
				variants = append(variants, true)
			}
			for _, array := range variants {
				toks := goToks(expand(b.Program, 0, array))
				// the arm is rendered once per parameter into one function body: a name it declares at
				// its top level must carry the parameter's name, or two parameters of that location
				// declare the same identifier in one scope (`no new variables on left side of :=` /
				// `redeclared in this block`)
				depthBr := 0
				inHeader := false // between if/for/switch and its `{`: names declared there are scoped to the statement
				for i, tk := range toks {
					switch tk.Tok {
					case token.IF, token.FOR, token.SWITCH:
						inHeader = true
					case token.LBRACE:
						if inHeader {
							inHeader = false
						}
						depthBr++
					case token.RBRACE:
						depthBr--
					}
					if depthBr != 0 || inHeader || tk.Tok != token.DEFINE {
						continue
					}
					// the left-hand side: identifiers and commas right before `:=`
					var lhs []string
					for j := i - 1; j >= 0 && (toks[j].Tok == token.IDENT || toks[j].Tok == token.COMMA); j-- {
						if toks[j].Tok == token.IDENT {
							lhs = append(lhs, toks[j].Lit)
						}
						if j > 0 && toks[j].Tok == token.IDENT && toks[j-1].Tok != token.COMMA {
							break
						}
					}
					perParam := false
					for _, id := range lhs {
						if strings.Contains(id, "M_") || id == "_" {
							perParam = perParam || id != "_"
						}
					}
					if len(lhs) > 0 && !perParam {
						viol = fmt.Sprintf("%s %s arm (array=%v): `%s :=` declares a name that does not contain the parameter's name: with two %s parameters on one route the handler declares it twice and the routes file does not compile", en, loc, array, strings.Join(lhs, ", "), loc)
					}
				}
				declared := map[string]bool{}
				for i, tk := range toks {
					if tk.Tok != token.IDENT || !strings.Contains(tk.Lit, "M_") {
						continue
					}
					// declaration forms: `x :=`, `x, y :=`, `var x`, `for _, x := range`
					if i > 0 && toks[i-1].Tok == token.VAR {
						declared[tk.Lit] = true
					}
					for j := i + 1; j < len(toks) && j < i+6; j++ {
						if toks[j].Tok == token.DEFINE {
							declared[tk.Lit] = true
							break
						}
						if toks[j].Tok != token.COMMA && toks[j].Tok != token.IDENT {
							break
						}
					}
				}
				for i, tk := range toks {
					if tk.Tok != token.IDENT || !strings.Contains(tk.Lit, "M_") {
						continue
					}
					// skip selectors (x.M_...) and package-qualified aliases (ParamM_..M_Name.)
					if i > 0 && toks[i-1].Tok == token.PERIOD {
						continue
					}
					if i+1 < len(toks) && toks[i+1].Tok == token.PERIOD {
						continue
					}
					if !strings.HasPrefix(tk.Lit, "M_ToLowerCamel_Name") && !strings.HasPrefix(tk.Lit, "isM_") && !strings.HasPrefix(tk.Lit, "M_Name") {
						continue // type names, literals etc.
					}
					nIdent++
					if !declared[tk.Lit] {
						viol = fmt.Sprintf("%s %s arm (array=%v): generated identifier %s is used but the handler only declares %v: the routes file would not compile (`undefined: ...`)", en, loc, array, strings.ReplaceAll(tk.Lit, "M_", "«"), keys(declared))
					}
				}
			}
		}
		if nIdent < 20 {
			viol = fmt.Sprintf("%s: only %d generated identifier uses recognised (floor 20)", en, nIdent)
		}
		o := r.add("C09.e", "tpl-defuse", en+":generated-identifiers", en+": every generated variable name is used with the spelling it is declared with", []string{t.File}, sites, viol)
		o.NonTrivial = true
	}
}

func isArrayBlock(b *hast.BlockStatement) bool {
	if b.Expression.HelperName() != "if" || len(b.Expression.Params) != 1 {
		return false
	}
	se, ok := b.Expression.Params[0].(*hast.SubExpression)
	return ok && se.Expression.HelperName() == "IsArray"
}

// checkIterableOnlyInQuery: the side condition of the def-use rule: the receiver validator
// rejects iterable non-body parameters outside the query.
func checkIterableOnlyInQuery(c *Ctx, r *Report) {
	w := c.W
	const fn = "(core/validators.ReceiverValidator).validateNonBodyParam"
	fi := need(c, r, "C09.e", fn)
	if fi == nil {
		return
	}
	viol := "no `if param.Type.IsIterable() && passedIn != PassedInQuery ... { return &diag }` guard found"
	var sites []string
	w.inspectRegion(fi, func(n ast.Node) bool {
		is, ok := n.(*ast.IfStmt)
		if !ok {
			return true
		}
		a := w.exprAtoms(fi, is.Cond)
		iter := false
		for cl := range a.Calls {
			if strings.HasSuffix(cl, ".IsIterable") {
				iter = true
			}
		}
		if !iter || !a.Idents["const:definitions.PassedInQuery"] {
			return true
		}
		sites = append(sites, w.pos(is.Pos()))
		// the body ends in a return of a non-nil diagnostic
		if len(is.Body.List) > 0 {
			if rs, ok := is.Body.List[len(is.Body.List)-1].(*ast.ReturnStmt); ok && len(rs.Results) == 1 {
				if id, ok := rs.Results[0].(*ast.Ident); !ok || id.Name != "nil" {
					viol = ""
				}
			}
		}
		return true
	})
	// first statement: nothing before it may return nil
	if viol == "" {
		if _, ok := fi.Decl.Body.List[0].(*ast.IfStmt); !ok {
			viol = "the iterable guard is no longer the first statement of validateNonBodyParam"
		}
	}
	r.add("C09.e", "guardedby", fn+":iterable-only-in-query", "array parameters are rejected outside the query (the only location whose parsing code declares the …RawArray variable)", []string{fn}, sites, viol)
}

// checkSharedProvider: import serials are handed out by ONE provider: no value-receiver
// method leaks the address of a field of its (copied) receiver, and the reduction context
// points at the pipeline's own provider.
func checkSharedProvider(c *Ctx, r *Report, clause string) {
	w := c.W
	allowed := map[string]string{
		"(graphs/symboldg.KeyableNodeMeta).SymbolKey|FVersion": "read-only: the file version is only read by NewSymbolKey to build a key",
	}
	var sites []string
	viol := ""
	esc := w.valueRecvFieldAddrEscapes()
	for _, e := range esc {
		parts := strings.SplitN(e, "|", 2)
		sites = append(sites, parts[0])
		if _, ok := allowed[parts[1]]; !ok {
			viol = fmt.Sprintf("%s: method %s has a value receiver but lets the address of its field escape: the address points into a per-call copy, so state behind it (e.g. the import-serial counter) restarts on every call", parts[0], strings.ReplaceAll(parts[1], "|", " field "))
		}
	}
	if len(esc) == 0 {
		viol = "expected the tabled KeyableNodeMeta.SymbolKey site (rule would pass vacuously)"
	}
	o := r.add(clause, "recv-addr", "value-receiver-field-address-escapes", "no value-receiver method hands out the address of a field of its receiver copy (reviewed exceptions only)", keysOf(allowed), sites, viol)
	o.NonTrivial = true

	const grc = "(*core/pipeline.GleecePipeline).getReductionContext"
	fi := w.fn(grc)
	if fi == nil {
		// a value receiver changes the key
		r.add(clause, "recv-addr", "getReductionContext:pointer-receiver", "the reduction context is built from the pipeline itself, not from a copy", []string{grc}, []string{"core/pipeline/pipeline.go:1"}, "method (*GleecePipeline).getReductionContext not found: with a value receiver every call would hand out a fresh copy of the serial provider")
		return
	}
	v2 := "ReductionContext.SyncedProvider is not the address of the pipeline's own syncedProvider field"
	var s2 []string
	allInstrs(fi.SSA, false, func(_ *ssa.Function, _ *ssa.BasicBlock, _ int, ins ssa.Instruction) {
		st, ok := ins.(*ssa.Store)
		if !ok {
			return
		}
		fa, ok := st.Addr.(*ssa.FieldAddr)
		if !ok {
			return
		}
		if f := structFieldVar(fa.X.Type(), fa.Field); f == nil || f.Name() != "SyncedProvider" {
			return
		}
		s2 = append(s2, w.pos(st.Pos()))
		src := st.Val
		if mi, ok := src.(*ssa.MakeInterface); ok {
			src = mi.X
		}
		if sfa, ok := src.(*ssa.FieldAddr); ok {
			if _, isParam := sfa.X.(*ssa.Parameter); isParam {
				if f := structFieldVar(sfa.X.Type(), sfa.Field); f != nil && f.Name() == "syncedProvider" {
					v2 = ""
				}
			}
		}
	})
	r.add(clause, "recv-addr", "getReductionContext:pointer-receiver", "every reduction allocates serials from the pipeline's single SyncedProvider", []string{grc}, s2, v2)
	// GetIdForKey is a memoised allocation
	ruleGuarded(c, r, clause, "(*core/visitors/providers.SyncedProvider).GetIdForKey", "allocation-only-when-absent",
		func(ins ssa.Instruction) bool {
			_, ok := ins.(*ssa.MapUpdate)
			return ok
		},
		func(a *sliceAtoms, cnd ssa.Value) bool { return a.hasFieldNamed("keyToImportId") }, false, 1,
		"a new serial is allocated only when the key has none (same key, same alias)")
}

// checkPackageNameVerbatim (C09.d / C20.d): the package clause of the routes file is the
// configured package name as written, or a literal default that is an identifier.
func checkPackageNameVerbatim(c *Ctx, r *Report, clause string) {
	w := c.W
	ctxT := w.lookupType("generator/routes", "RoutesContext")
	if fi := need(c, r, clause, "generator/routes.GetTemplateContext"); fi != nil {
		viol := ""
		var sites []string
		// whatever the shape (two assignments, or a default that is overridden): what can end up in
		// PackageName is the configured name verbatim or a literal default that is an identifier
		hasCfg, nDefault := false, 0
		sinks := w.fieldSinks(fi, ctxT, "PackageName")
		if len(sinks) == 0 {
			viol = "RoutesContext.PackageName is never set"
		}
		for _, sk := range sinks {
			sites = append(sites, w.pos(sk.Pos))
			a := w.exprAtoms(fi, sk.Expr)
			if a.Fields["definitions.RoutesConfig.PackageName"] {
				hasCfg = true
			}
			for c := range a.Calls {
				if !strings.HasPrefix(c, "conv:") {
					viol = fmt.Sprintf("%s: RoutesContext.PackageName passes through %s: it is no longer routesConfig.packageName verbatim", w.pos(sk.Pos), c)
				}
			}
			for f := range a.Fields {
				if f != "definitions.RoutesConfig.PackageName" && f != "definitions.GleeceConfig.RoutesConfig" {
					viol = fmt.Sprintf("%s: RoutesContext.PackageName also depends on %s", w.pos(sk.Pos), f)
				}
			}
			for l := range a.Lits {
				if !strings.HasPrefix(l, "\"") || l == `""` {
					continue
				}
				nDefault++
				if !token.IsIdentifier(unquote(l)) {
					viol = "default package name " + l + " is not an identifier"
				}
			}
		}
		if viol == "" && (!hasCfg || nDefault < 1) {
			viol = fmt.Sprintf("PackageName must be the configured name or a literal default (configured: %v, literal defaults: %d)", hasCfg, nDefault)
		}
		r.add(clause, "fieldflow", fi.Key+":PackageName", "PackageName = routesConfig.packageName verbatim, or a literal default that is an identifier", []string{fi.Key}, sites, viol)
	}
}

// checkDeclaredWhereCalled: a function the templates declare (`func name(`) inside a
// handlebars condition exists only in routers rendered with that condition true; every
// call of it must stand under the same condition, or a configuration exists for which the
// routes file calls an undeclared function. Conditions are compared as sets of (polarity,
// block head) pairs with `../` and `@root.` stripped (the heads in question are read from the
// root context whatever the depth they are spelled at).
func checkDeclaredWhereCalled(c *Ctx, r *Report, clause string) {
	normPath := func(s string) string {
		for strings.HasPrefix(s, "../") {
			s = s[3:]
		}
		return strings.TrimPrefix(s, "@root.")
	}
	head := func(b *hast.BlockStatement) string {
		s := b.Expression.HelperName()
		if s == "" {
			s = b.Expression.Canonical()
		}
		for _, prm := range b.Expression.Params {
			if pe, ok := prm.(*hast.PathExpression); ok {
				s += " " + normPath(pe.Original)
			} else {
				s += " " + prm.String()
			}
		}
		return s
	}
	for _, en := range c.T.Order {
		eng := c.T.Engines[en]
		type occ struct {
			conds []string
			site  string
		}
		decls := map[string][]occ{}
		calls := map[string][]occ{}
		var walk func(t *Tpl, p *hast.Program, conds []string, depth int)
		walk = func(t *Tpl, p *hast.Program, conds []string, depth int) {
			if p == nil || depth > 6 {
				return
			}
			for _, st := range p.Body {
				switch n := st.(type) {
				case *hast.ContentStatement:
					toks := goToks(n.Value)
					for i, tk := range toks {
						if tk.Tok != token.IDENT || i+1 >= len(toks) || toks[i+1].Tok != token.LPAREN {
							continue
						}
						o := occ{append([]string{}, conds...), tplSite(t, eng, n.Line)}
						switch {
						case i > 0 && toks[i-1].Tok == token.FUNC:
							decls[tk.Lit] = append(decls[tk.Lit], o)
						case i > 0 && toks[i-1].Tok == token.PERIOD:
						default:
							calls[tk.Lit] = append(calls[tk.Lit], o)
						}
					}
				case *hast.PartialStatement:
					if pt := eng.Partials[partialName(n)]; pt != nil {
						walk(pt, pt.Prog, conds, depth+1)
					}
				case *hast.BlockStatement:
					h := head(n)
					walk(t, n.Program, append(append([]string{}, conds...), "+"+h), depth)
					walk(t, n.Inverse, append(append([]string{}, conds...), "-"+h), depth)
				}
			}
		}
		walk(eng.Routes, eng.Routes.Prog, nil, 0)
		viol := ""
		var sites []string
		names := make([]string, 0, len(decls))
		for nm := range decls {
			names = append(names, nm)
		}
		sort.Strings(names)
		nCalls := 0
		for _, nm := range names {
			for _, cl := range calls[nm] {
				nCalls++
				sites = append(sites, cl.site)
				// some declaration must be present whenever the call is: its conditions are among the call's
				ok := false
				var lacking string
				for _, d := range decls[nm] {
					all := true
					for _, dc := range d.conds {
						if !slices.Contains(cl.conds, dc) {
							all = false
							lacking = fmt.Sprintf("%s (declared at %s)", dc, d.site)
						}
					}
					ok = ok || all
				}
				if !ok && viol == "" {
					viol = fmt.Sprintf("%s: %s: generated code calls %s(), which the templates declare only under the condition %s; the call stands under %v: for a configuration with the call's conditions true and that one false the routes file does not compile (`undefined: %s`)", en, cl.site, nm, lacking, cl.conds, nm)
				}
			}
		}
		if len(names) < 5 || nCalls < 5 {
			viol = fmt.Sprintf("%s: only %d declared functions / %d calls recognised in the templates (floor 5/5)", en, len(names), nCalls)
		}
		r.add(clause, "tpl-defuse", en+":declared-where-called", fmt.Sprintf("%s: each of the %d functions the templates declare is declared under no more conditions than any of its %d calls", en, len(names), nCalls), []string{eng.Routes.File}, sites, viol)
	}
}
