package main

import (
	"encoding/json"
	"fmt"
	"go/ast"
	"go/types"
	"os"
	"path/filepath"
	"sort"
	"strings"
)

// Type-switch arms. The visitors decide which shapes of Go syntax gleece understands by
// type-switching over go/ast nodes; everything downstream (what IsByAddress sees, which
// conversions the templates have, how a type is spelled) was reviewed for exactly those shapes.
// `tables/typeswitches.json` records, per function of the given packages, the node types its
// type switches have an arm for. An arm for a further node type is a newly accepted shape and
// is reported; losing an arm only makes gleece reject more and is not.

func (w *World) typeSwitchArms(pkgPrefixes ...string) map[string][]string {
	out := map[string][]string{}
	for _, fi := range w.funcsOfPkgPrefixes(pkgPrefixes...) {
		if fi.Decl.Body == nil {
			continue
		}
		set := map[string]bool{}
		info := fi.Pkg.TypesInfo
		ast.Inspect(fi.Decl.Body, func(n ast.Node) bool {
			ts, ok := n.(*ast.TypeSwitchStmt)
			if !ok {
				return true
			}
			for _, st := range ts.Body.List {
				cc := st.(*ast.CaseClause)
				for _, e := range cc.List {
					if t := info.TypeOf(e); t != nil {
						set[short(types.TypeString(t, nil))] = true
					}
				}
			}
			return true
		})
		if len(set) == 0 {
			continue
		}
		for _, h := range hostParts(w.hostKey(fi.Key)) {
			for k := range set {
				out[h] = append(out[h], k)
			}
		}
	}
	for k := range out {
		sort.Strings(out[k])
		out[k] = dedupSortedPlain(out[k])
	}
	return out
}

func (w *World) dumpTypeSwitches() []byte {
	b, _ := json.MarshalIndent(map[string]any{
		"_comment": "per function of core/visitors, core/arbitrators and gast: the types its type switches have an arm for; regenerate with -dump-typeswitches on the reviewed tree",
		"arms":     w.typeSwitchArms("core/visitors", "core/arbitrators", "gast"),
	}, "", " ")
	return append(b, '\n')
}

func checkTypeSwitchArms(c *Ctx, r *Report, clause string) {
	w := c.W
	var doc struct {
		Arms map[string][]string `json:"arms"`
	}
	if b, err := os.ReadFile(filepath.Join(c.VerifDir, "tables", "typeswitches.json")); err != nil || json.Unmarshal(b, &doc) != nil || len(doc.Arms) < 5 {
		r.undecided(clause, "vocabulary", "type-switch-arms", "", "tables/typeswitches.json unreadable or too small")
		return
	}
	// every tabled arm of any function: an arm that moved between reviewed functions is not new
	anywhere := map[string]bool{}
	for _, as := range doc.Arms {
		for _, a := range as {
			anywhere[a] = true
		}
	}
	viol := ""
	var sites []string
	n := 0
	cur := w.typeSwitchArms("core/visitors", "core/arbitrators", "gast")
	fns := make([]string, 0, len(cur))
	for k := range cur {
		fns = append(fns, k)
	}
	sort.Strings(fns)
	for _, fn := range fns {
		n++
		if fi := w.fn(fn); fi != nil {
			sites = append(sites, w.pos(fi.Decl.Pos()))
		}
		known := map[string]bool{}
		for _, a := range doc.Arms[fn] {
			known[a] = true
		}
		_, tabled := doc.Arms[fn]
		for _, a := range cur[fn] {
			if known[a] || (!tabled && anywhere[a]) {
				continue
			}
			if strings.HasPrefix(a, "*go/ast.") || strings.HasPrefix(a, "go/ast.") || strings.HasPrefix(a, "*go/types.") || strings.HasPrefix(a, "go/types.") {
				viol = fmt.Sprintf("%s now has a type-switch arm for %s (tables/typeswitches.json): a shape of Go syntax / type that gleece did not handle there is now accepted; what the rest of the pipeline does with it (pointer-ness seen on the outer node only, no conversion block, another spelling) was never reviewed", fn, a)
			}
		}
	}
	if n < 5 {
		viol = fmt.Sprintf("only %d functions with type switches found (floor 5)", n)
	}
	o := r.add(clause, "vocabulary", "type-switch-arms", "the syntax and type shapes the visitors have an arm for are the reviewed ones", []string{"tables/typeswitches.json"}, sites, viol)
	o.NonTrivial = true
}
