package main

import (
	"fmt"
	"go/ast"
	"go/token"
	"go/types"
	"golang.org/x/tools/go/cfg"
	"sort"
	"strings"

	"golang.org/x/tools/go/ssa"
)

func init() {
	register("C15", "Static structural obligations on the route-conflict detector: a Conflict is only built by addConflict; every addConflict call is dominated by patternsConflict(new, existing) == true on identically normalised segment lists, or by 'an endpoint is already registered at this very trie node for this very verb'; candidates are collected for the entry's own verb only; an entry is registered after it was compared (never conflicts with itself); every segment of every entry is compared against its siblings (no iteration of the segment loop skips the report functions) and every entry is either reported as duplicate or registered; the de-duplication key depends on the identity of both entries, not only on their path text; the entries fed in carry the full template (controller route + method route, composed like the spec) and the route's verb; every reported conflict yields a warning for both entries. Completeness and permutation-invariance of the trie walk over all route lists are not decided.", checkC15)
}

const pkgPaths = "core/validators/paths"

func checkC15(c *Ctx, r *Report) {
	defer checkEndpointKeysAgree(c, r, "C15.b")
	defer checkContainerFields(c, r, "C15.e")
	defer checkProcessWideState(c, r, "C15.e")
	w := c.W
	r.NotDecided = append(r.NotDecided, "per-entry completeness and permutation invariance of the trie walk over all route lists (an inductive argument about the algorithm)", "value semantics of normalizePath/splitSegments/isParamSegment on every string")
	const fc = pkgPaths + ".FindConflicts"
	const ac = pkgPaths + ".addConflict"
	const pc = pkgPaths + ".patternsConflict"
	const cem = pkgPaths + ".collectEndpointsByMethod"
	reports := []string{pkgPaths + ".reportParamVsLiterals", pkgPaths + ".reportParamVsParam", pkgPaths + ".reportLiteralVsParam"}

	// ---- C15.a soundness
	// Conflict values are built only in addConflict
	{
		ct := w.lookupType(pkgPaths, "Conflict")
		viol := ""
		var sites []string
		n := 0
		for _, p := range w.Pkgs {
			for _, f := range p.Syntax {
				ast.Inspect(f, func(nd ast.Node) bool {
					cl, ok := nd.(*ast.CompositeLit)
					if !ok {
						return true
					}
					if nt, ok := derefNamed(p.TypesInfo.TypeOf(cl)); ok && ct != nil && nt.Obj() == ct.Obj() {
						n++
						sites = append(sites, w.pos(cl.Pos()))
						encl := w.enclosingFunc(p, cl.Pos())
						if encl != ac {
							viol = fmt.Sprintf("%s: a paths.Conflict is constructed in %s, outside addConflict (bypasses the guarded report functions)", w.pos(cl.Pos()), encl)
						}
					}
					return true
				})
			}
		}
		if n == 0 {
			viol = "no construction of paths.Conflict found"
		}
		r.add("C15.a", "whowrites", "paths.Conflict:constructed-only-in-addConflict", "conflicts are only created by addConflict", []string{ac}, sites, viol)
	}
	ruleWhoCalls(c, r, "C15.a", nameIs(ac), ac, append([]string{fc}, reports...), 4, "addConflict is called only by FindConflicts and the three report functions")
	for _, rf := range reports {
		ruleGuarded(c, r, "C15.a", rf, "addConflict-guarded-by-patternsConflict",
			func(ins ssa.Instruction) bool {
				cl, ok := ins.(ssa.CallInstruction)
				return ok && calleeName(cl) == ac
			},
			func(a *sliceAtoms, cnd ssa.Value) bool { return a.Calls[pc] }, true, 1,
			"a conflict is reported only if patternsConflict(new, existing) held")
		// the operands of patternsConflict: the new entry's segments and the candidate's normalised segments
		if fi := need(c, r, "C15.a", rf); fi != nil {
			viol := ""
			var sites []string
			pcs := callsIn(fi.SSA, false, nameIs(pc))
			if len(pcs) != 1 {
				viol = fmt.Sprintf("expected one patternsConflict call in %s, found %d", rf, len(pcs))
			}
			for _, cl := range pcs {
				sites = append(sites, w.pos(cl.Pos()))
				a0, a1 := sliceOf(cl.Common().Args[0]), sliceOf(cl.Common().Args[1])
				isNew := func(a *sliceAtoms) bool {
					for p := range a.Params {
						if paramTyped(p, "[]string") {
							return len(a.Calls) == 0
						}
					}
					return false
				}
				isCand := func(a *sliceAtoms) bool {
					return a.Calls[pkgPaths+".splitSegments"] && a.Calls[pkgPaths+".normalizePath"] && a.Calls[cem] && a.hasFieldNamed("Path")
				}
				if !((isNew(a0) && isCand(a1)) || (isNew(a1) && isCand(a0))) {
					viol = fmt.Sprintf("%s: patternsConflict is not applied to (the new entry's segments, splitSegments(normalizePath(candidate.Path)))", w.pos(cl.Pos()))
				}
			}
			// and the entry reported is that very candidate
			for _, cl := range callsIn(fi.SSA, false, nameIs(ac)) {
				args := argsTyped(cl, "*core/validators/paths.RouteEntry")
				if len(args) != 2 {
					viol = "addConflict is no longer given two entries"
					continue
				}
				ea, eb := sliceOf(args[0]), sliceOf(args[1])
				okA := false
				for p := range ea.Params {
					if paramTyped(p, "*core/validators/paths.RouteEntry") {
						okA = true
					}
				}
				if !okA || !eb.Calls[cem] {
					viol = fmt.Sprintf("%s: addConflict is not given (the new entry, the candidate that was tested)", w.pos(cl.Pos()))
				}
			}
			r.add("C15.a", "fieldflow", rf+":patternsConflict-operands", "the overlap test compares the new entry with the reported candidate, both normalised the same way", []string{rf}, sites, viol)
		}
		// same verb: candidates are collected for entry.Method
		if fi := need(c, r, "C15.a", rf); fi != nil {
			viol := ""
			var sites []string
			cs := callsIn(fi.SSA, false, nameIs(cem))
			if len(cs) == 0 {
				viol = "no collectEndpointsByMethod call"
			}
			for _, cl := range cs {
				sites = append(sites, w.pos(cl.Pos()))
				a := sliceOf(cl.Common().Args[1])
				isEntry := false
				for p := range a.Params {
					if paramTyped(p, "*core/validators/paths.RouteEntry") {
						isEntry = true
					}
				}
				if !isEntry || !a.hasFieldNamed("Method") || len(a.Consts) > 0 {
					viol = fmt.Sprintf("%s: candidates are not collected for the new entry's own verb", w.pos(cl.Pos()))
				}
			}
			r.add("C15.a", "fieldflow", rf+":same-verb", "only endpoints of the entry's verb are candidates", []string{rf}, sites, viol)
		}
	}
	// patternsConflict: two segment lists of equal length overlap unless some position holds two
	// DIFFERENT LITERALS. It answers "no overlap" only there: under a length mismatch, or where
	// both segments of the position are known not to be parameters (a parameter overlaps with
	// any literal and with a parameter of any other name).
	if fi := need(c, r, "C15.a", pc); fi != nil {
		viol := ""
		var sites []string
		nFalse := 0
		for _, ex := range exitsOf(fi.SSA) {
			if ex.Ret == nil || len(ex.Ret.Results) != 1 {
				continue
			}
			for _, lv := range phiLeaves(unspill(ex.Ret.Results[0], ex.Block)) {
				k, ok := lv.(*ssa.Const)
				if !ok || !isBoolConst(k, false) {
					continue
				}
				nFalse++
				sites = append(sites, w.pos(retPos(ex)))
				blk := ex.Block
				if ex.Pred != nil {
					blk = ex.Pred
				}
				lenMismatch, notParam := false, map[string]bool{}
				for _, f := range dominatingFacts(blk) {
					cnd, pol := unwrapNot(f.Cond, f.Pol)
					if bo, isB := cnd.(*ssa.BinOp); isB && sliceOf(cnd).Calls["builtin.len"] && ((bo.Op == token.NEQ && pol) || (bo.Op == token.EQL && !pol)) {
						lenMismatch = true
					}
					if cl, isCall := cnd.(*ssa.Call); isCall && !pol && calleeName(cl) == pkgPaths+".isParamSegment" && len(cl.Call.Args) == 1 {
						// which list the segment is taken from
						for p := range sliceOf(cl.Call.Args[0]).Params {
							notParam[p.Name()+fmt.Sprint(p.Pos())] = true
						}
					}
				}
				if !lenMismatch && len(notParam) < 2 {
					viol = fmt.Sprintf("%s: patternsConflict answers \"no overlap\" at a position where it is not established that BOTH segments are literals (isParamSegment known false for %d of the 2 lists): a parameter facing a literal, or a parameter of another name, then hides a real overlap", w.pos(retPos(ex)), len(notParam))
				}
			}
		}
		if nFalse == 0 {
			viol = "patternsConflict never answers false"
		}
		o := r.add("C15.a", "guardedby", pc+":false-only-for-two-literals", "\"no overlap\" is answered only under a length mismatch or for two different literals at one position", []string{pc}, sites, viol)
		o.NonTrivial = true
	}
	if fi := need(c, r, "C15.a", cem); fi != nil {
		// inside the dfs closure, the only value appended is cur.endpoint[method]
		viol := "collectEndpointsByMethod does not select endpoint[method]"
		var sites []string
		// wherever the walk is written (closure, new function): the endpoint map is indexed with
		// the requested verb itself - the function's string parameter, directly or captured
		isVerbParam := func(ka *sliceAtoms) bool {
			if len(ka.Consts) != 0 {
				return false
			}
			n := 0
			for p := range ka.Params {
				if namedOf(p.Parent()) == namedOf(fi.SSA) && paramTyped(p, "string") {
					n++
				} else {
					return false
				}
			}
			for fv := range ka.FreeVars {
				if b, ok := fv.Type().(*types.Pointer); ok && b.Elem().String() == "string" || fv.Type().String() == "string" {
					n++
				} else {
					return false
				}
			}
			return n == 1
		}
		allInstrs(fi.SSA, true, func(_ *ssa.Function, _ *ssa.BasicBlock, _ int, ins ssa.Instruction) {
			lk, ok := ins.(*ssa.Lookup)
			if !ok {
				return
			}
			if ma := sliceOf(lk.X); ma.hasFieldNamed("endpoint") {
				sites = append(sites, w.pos(lk.Pos()))
				if isVerbParam(sliceOf(lk.Index)) {
					viol = ""
				}
			}
		})
		r.add("C15.a", "fieldflow", cem+":endpoint[method]", "the endpoints collected are those registered under the requested verb", []string{cem}, sites, viol)
	}
	if fi := need(c, r, "C15.a", fc); fi != nil {
		// duplicate: addConflict(entry, existing) guarded by existing != nil, existing = curr.endpoint[entry.Method]
		viol := ""
		var sites []string
		n := 0
		for _, cl := range callsIn(fi.SSA, false, nameIs(ac)) {
			n++
			sites = append(sites, w.pos(cl.Pos()))
			entries := argsTyped(cl, "*core/validators/paths.RouteEntry")
			if len(entries) != 2 {
				viol = fmt.Sprintf("%s: addConflict is no longer given two entries", w.pos(cl.Pos()))
				continue
			}
			ex := entries[1]
			if u, ok := ex.(*ssa.UnOp); ok && u.Op == token.MUL {
				ex = u.X
			}
			lk, ok := stripTrivial(ex).(*ssa.Lookup)
			if !ok {
				viol = fmt.Sprintf("%s: the existing entry reported as duplicate is not an endpoint-map lookup", w.pos(cl.Pos()))
				continue
			}
			ma, ka := sliceOf(lk.X), sliceOf(lk.Index)
			if !ma.hasFieldNamed("endpoint") || !ka.hasFieldNamed("Method") {
				viol = fmt.Sprintf("%s: the duplicate is not looked up as curr.endpoint[entry.Method]", w.pos(cl.Pos()))
			}
			guarded := false
			for _, f := range guardsOf(cl) {
				cnd, p := unwrapNot(f.Cond, f.Pol)
				if b, ok := cnd.(*ssa.BinOp); ok && ((b.Op == token.NEQ && p) || (b.Op == token.EQL && !p)) {
					if stripTrivial(b.X) == ssa.Value(lk) || stripTrivial(b.Y) == ssa.Value(lk) {
						guarded = true
					}
				}
			}
			if !guarded {
				viol = fmt.Sprintf("%s: duplicate report is not guarded by `existing != nil`", w.pos(cl.Pos()))
			}
		}
		if n != 1 {
			viol = fmt.Sprintf("expected one addConflict call in FindConflicts, found %d", n)
		}
		r.add("C15.a", "guardedby", fc+":duplicate-guard", "a duplicate is reported only against the endpoint already registered at the same trie node for the same verb", []string{fc}, sites, viol)

		// segments of the new entry are splitSegments(normalizePath(entry.Path))
		v2 := ""
		var s2 []string
		nrep := 0
		for _, cl := range callsIn(fi.SSA, false, func(n string) bool { return strings.HasPrefix(n, pkgPaths+".report") }) {
			nrep++
			s2 = append(s2, w.pos(cl.Pos()))
			segs := argsTyped(cl, "[]string")
			if len(segs) != 1 {
				v2 = fmt.Sprintf("%s: the report function is no longer given one segment list", w.pos(cl.Pos()))
				continue
			}
			a := sliceOf(segs[0])
			if !a.Calls[pkgPaths+".splitSegments"] || !a.Calls[pkgPaths+".normalizePath"] || !a.hasFieldNamed("Path") {
				v2 = fmt.Sprintf("%s: the segments handed to the report function are not splitSegments(normalizePath(entry.Path))", w.pos(cl.Pos()))
			}
		}
		if nrep != 3 {
			v2 = fmt.Sprintf("expected the three report functions to be called from FindConflicts, found %d calls", nrep)
		}
		r.add("C15.a", "fieldflow", fc+":new-segments", "the new entry is normalised exactly like the candidates", []string{fc}, s2, v2)

		// registered after compared: within one iteration of the entries loop the endpoint store follows every report call
		v3 := ""
		var s3 []string
		// the endpoint registration (a store into some trie node's `endpoint` map) and the report
		// calls, wherever in FindConflicts or the new functions it uses they are written
		var stores, reps []ssa.Instruction
		isRep := nameIs(append(append([]string{}, reports...), ac)...)
		allInstrs(fi.SSA, true, func(_ *ssa.Function, _ *ssa.BasicBlock, _ int, ins ssa.Instruction) {
			switch x := ins.(type) {
			case *ssa.MapUpdate:
				if sliceOf(x.Map).hasFieldNamed("endpoint") {
					stores = append(stores, ins)
					s3 = append(s3, w.pos(ins.Pos()))
				}
			case ssa.CallInstruction:
				if isRep(calleeName(x)) {
					reps = append(reps, ins)
				}
			}
		})
		hasGoto := false
		for _, rf := range w.astRegion(fi) {
			if containsNode(rf.Decl, func(n ast.Node) bool {
				b, ok := n.(*ast.BranchStmt)
				return ok && b.Tok == token.GOTO
			}) {
				hasGoto = true
			}
		}
		switch {
		case hasGoto:
			v3 = "goto present: statement order says nothing"
		case len(stores) == 0:
			v3 = "the entry is never registered in the trie"
		default:
			// compared in the innermost function of the region in which both take effect at different places
			for _, st := range stores {
				for _, rp := range reps {
					decided := false
					for _, f := range w.regionFns(fi.SSA) {
						hs, hr := w.hostCallsIn(f, st), w.hostCallsIn(f, rp)
						if len(hs) == 0 || len(hr) == 0 {
							continue
						}
						ps, pr := hs[0].Pos(), hr[0].Pos()
						if ps == pr {
							continue // both inside the same call of a further helper: look there
						}
						decided = true
						if hs[0].Parent() == hr[0].Parent() && !instrDominates(hs[0], hr[0]) {
							continue // alternative branches (register or report a duplicate), not a sequence
						}
						if ps < pr {
							v3 = fmt.Sprintf("%s: an entry is registered before it was compared (%s): it can be reported as conflicting with itself", w.pos(st.Pos()), w.pos(rp.Pos()))
						}
					}
					_ = decided
				}
			}
		}
		r.add("C15.a", "no-reorder", fc+":register-after-compare", "an entry is registered only after all comparisons of its iteration (two distinct entries per conflict)", []string{fc}, s3, v3)
	}

	// normalisation: runs of slashes collapse, and no empty segment survives (a trailing slash is trimmed)
	ruleSlashCollapse(c, r, "C15.a", pkgPaths+".normalizePath", "normalizePath collapses slash runs of any length (entries that differ only in repeated slashes are the same template)")
	{
		viol := "neither normalizePath nor splitSegments removes a trailing slash / empty segments (accepted idioms: strings.TrimRight/TrimSuffix(p, \"/\"), path.Clean, strings.FieldsFunc): `/users/` then has an empty last segment, so it is compared as a different template than `/users` and as overlapping with `/users/{id}`"
		var sites []string
		for _, k := range []string{pkgPaths + ".normalizePath", pkgPaths + ".splitSegments"} {
			fi := need(c, r, "C15.a", k)
			if fi == nil {
				continue
			}
			w.inspectRegion(fi, func(n ast.Node) bool {
				cl, ok := n.(*ast.CallExpr)
				if !ok {
					return true
				}
				switch calleeOfCall(fi.Pkg.TypesInfo, cl) {
				case "strings.TrimRight", "strings.TrimSuffix":
					if len(cl.Args) == 2 && litString(cl.Args[1]) == "/" && k == pkgPaths+".normalizePath" {
						viol = ""
						sites = append(sites, w.pos(cl.Pos()))
					}
				case "path.Clean", "strings.FieldsFunc", "strings.Fields":
					viol = ""
					sites = append(sites, w.pos(cl.Pos()))
				}
				return true
			})
		}
		r.add("C15.a", "idiom", pkgPaths+".normalizePath:no-empty-segment", "a trailing slash does not create an extra (empty) segment", []string{pkgPaths + ".normalizePath", pkgPaths + ".splitSegments"}, sites, viol)
	}

	// ---- C15.b completeness conditions visible in the code shape
	ruleEach(c, r, "C15.b", fc,
		func(fi *FuncInfo) func(ast.Expr) bool { return w.rangeOverType(fi, "[]string") }, "newSegments",
		func(fi *FuncInfo) func(ast.Node) bool { return w.callPred(fi, reports...) }, "report*",
		nil, false, "every segment of every entry is compared against the siblings registered so far (no segment skips the report functions)")
	if fi := need(c, r, "C15.b", fc); fi != nil {
		// the parameter arm calls both param reports
		viol := "no `if isParamSegment(seg)` arm calling reportParamVsLiterals and reportParamVsParam"
		var sites []string
		w.inspectRegion(fi, func(n ast.Node) bool {
			is, ok := n.(*ast.IfStmt)
			if !ok || !w.condCalls(fi, pkgPaths+".isParamSegment")(is.Cond) {
				return true
			}
			sites = append(sites, w.pos(is.Pos()))
			top := map[string]bool{}
			for _, st := range is.Body.List {
				if es, ok := st.(*ast.ExprStmt); ok {
					if cl, ok := es.X.(*ast.CallExpr); ok {
						top[calleeOfCall(fi.Pkg.TypesInfo, cl)] = true
					}
				}
			}
			if top[reports[0]] && top[reports[1]] {
				viol = ""
			}
			return true
		})
		r.add("C15.b", "each-iteration", fc+":param-arm-calls-both", "a parameter segment is compared against literal siblings and against the parameter sibling, unconditionally", []string{fc}, sites, viol)
	}
	ruleEach(c, r, "C15.b", fc,
		func(fi *FuncInfo) func(ast.Expr) bool { return w.paramOfType(fi, "[]core/validators/paths.RouteEntry") }, "entries",
		func(fi *FuncInfo) func(ast.Node) bool {
			isAdd := w.callPred(fi, ac)
			return func(n ast.Node) bool {
				if isAdd(n) {
					return true
				}
				as, ok := n.(*ast.AssignStmt)
				if !ok || len(as.Lhs) != 1 {
					return false
				}
				ix, ok := as.Lhs[0].(*ast.IndexExpr)
				if !ok {
					return false
				}
				se, ok := ix.X.(*ast.SelectorExpr)
				return ok && se.Sel.Name == "endpoint"
			}
		}, "addConflict|endpoint[method]=", nil, false, "every entry is either reported as a duplicate or registered")
	if fi := need(c, r, "C15.b", cem); fi != nil {
		// the subtree walk visits every literal child and the parameter child
		viol := ""
		var sites []string
		// the walk: a closure bound to a variable through which it calls itself, or a new
		// function of the region that calls itself
		var walkBody ast.Node
		var litObj types.Object
		walkKey := ""
		w.inspectRegion(fi, func(n ast.Node) bool {
			if as, ok := n.(*ast.AssignStmt); ok && walkBody == nil && len(as.Lhs) == 1 && len(as.Rhs) == 1 {
				if fl, ok := as.Rhs[0].(*ast.FuncLit); ok {
					if id, ok := as.Lhs[0].(*ast.Ident); ok {
						walkBody, litObj = fl.Body, fi.Pkg.TypesInfo.ObjectOf(id)
					}
				}
			}
			return true
		})
		if walkBody == nil {
			for _, rf := range w.astRegion(fi)[1:] {
				rf := rf
				if rf.Pkg == fi.Pkg && rf.Decl.Body != nil && containsNode(rf.Decl.Body, w.callPred(rf, rf.Key)) {
					walkBody, walkKey = rf.Decl.Body, rf.Key
				}
			}
		}
		isWalk := func(e ast.Expr) bool {
			if id, ok := e.(*ast.Ident); ok && litObj != nil && fi.Pkg.TypesInfo.ObjectOf(id) == litObj {
				return true
			}
			if walkKey != "" {
				if f, ok := fi.Pkg.TypesInfo.Uses[identOf(e)].(*types.Func); ok {
					return shortFuncName(f) == walkKey
				}
			}
			return false
		}
		if walkBody == nil {
			viol = "the subtree walk (a function or closure that calls itself) was not found"
		} else {
			inRange, onParam := false, false
			ast.Inspect(walkBody, func(n ast.Node) bool {
				switch x := n.(type) {
				case *ast.RangeStmt:
					if se, ok := x.X.(*ast.SelectorExpr); ok && se.Sel.Name == "literalChildren" {
						sites = append(sites, w.pos(x.Pos()))
						// body is exactly the recursive call on the child (its result possibly assigned)
						if len(x.Body.List) == 1 {
							if _, isIf := x.Body.List[0].(*ast.IfStmt); !isIf && containsNode(x.Body.List[0], func(m ast.Node) bool {
								cl, ok := m.(*ast.CallExpr)
								return ok && isWalk(cl.Fun)
							}) {
								inRange = true
							}
						}
					}
				case *ast.CallExpr:
					if isWalk(x.Fun) {
						for _, a := range x.Args {
							if se, ok := a.(*ast.SelectorExpr); ok && se.Sel.Name == "paramChild" {
								onParam = true
								sites = append(sites, w.pos(x.Pos()))
							}
						}
					}
				}
				return true
			})
			if !inRange || !onParam {
				viol = "the subtree walk no longer descends unconditionally into every literal child and into the parameter child: registered endpoints below are never candidates"
			}
			// unconditionally: on every path through the walk's body both descents are reached,
			// except past a nil test (of the node, or of the child about to be descended into)
			if body, ok := walkBody.(*ast.BlockStmt); ok && viol == "" {
				info := fi.Pkg.TypesInfo
				nilSkip := func(cond ast.Expr, pol bool) bool {
					for _, f := range edgeFactsAST(cond, pol) {
						x, y, isEq := eqOperands(f.Expr)
						if !isEq {
							return false
						}
						if !(isNilIdent(info, x) || isNilIdent(info, y)) || !f.Pol {
							return false
						}
					}
					return len(edgeFactsAST(cond, pol)) > 0
				}
				g := cfg.New(body, func(*ast.CallExpr) bool { return true })
				for _, tgt := range []struct {
					what string
					is   func(ast.Node) bool
				}{
					{"every literal child", func(n ast.Node) bool {
						rs, ok := n.(*ast.RangeStmt)
						if !ok {
							return false
						}
						se, ok := rs.X.(*ast.SelectorExpr)
						return ok && se.Sel.Name == "literalChildren"
					}},
					{"the parameter child", func(n ast.Node) bool {
						cl, ok := n.(*ast.CallExpr)
						if !ok || !isWalk(cl.Fun) {
							return false
						}
						for _, a := range cl.Args {
							if se, ok := a.(*ast.SelectorExpr); ok && se.Sel.Name == "paramChild" {
								return true
							}
						}
						return false
					}},
				} {
					if !bodyMustReach(g, tgt.is, nilSkip) {
						viol = fmt.Sprintf("the subtree walk can finish without having descended into %s (a path avoids it that is not a nil test): registered endpoints below the skipped children are never candidates", tgt.what)
					}
				}
			}
		}
		r.add("C15.b", "each-iteration", cem+":dfs-visits-all-children", "candidate collection walks the whole subtree", []string{cem}, sites, viol)
	}

	// ---- C15.c identity in de-duplication
	if fi := need(c, r, "C15.c", ac); fi != nil {
		viol := ""
		var sites []string
		var keyVals []ssa.Value
		allInstrs(fi.SSA, false, func(_ *ssa.Function, _ *ssa.BasicBlock, _ int, ins ssa.Instruction) {
			switch x := ins.(type) {
			case *ssa.Lookup:
				if _, isMap := x.X.Type().Underlying().(*types.Map); isMap {
					keyVals = append(keyVals, x.Index)
					sites = append(sites, w.pos(x.Pos()))
				}
			case *ssa.MapUpdate:
				keyVals = append(keyVals, x.Key)
				sites = append(sites, w.pos(x.Pos()))
			}
		})
		if len(keyVals) == 0 {
			// no de-duplication at all is fine for this clause
			r.add("C15.c", "fieldflow", ac+":dedupe-key-identity", "addConflict does not de-duplicate (nothing to check)", []string{ac}, sites, "")
		} else {
			for _, kv := range keyVals {
				seen := map[ssa.Value]bool{}
				backSlice(kv, newAtoms(), seen, 0)
				ident := 0
				for v := range seen {
					switch x := v.(type) {
					case *ssa.MakeInterface:
						if nt, ok := derefNamed(x.X.Type()); ok && nt.Obj().Name() == "RouteEntry" {
							if _, isPtr := x.X.Type().(*types.Pointer); isPtr {
								ident++
							}
						}
					case *ssa.FieldAddr:
						if f := structFieldVar(x.X.Type(), x.Field); f != nil && (f.Name() == "Meta" || f.Name() == "Receiver" || f.Name() == "Controller") {
							ident++
						}
					case *ssa.Field:
						if f := structFieldVar(x.X.Type(), x.Field); f != nil && (f.Name() == "Meta" || f.Name() == "Receiver" || f.Name() == "Controller") {
							ident++
						}
					case *ssa.Parameter:
						if b, ok := x.Type().Underlying().(*types.Basic); ok && b.Info()&types.IsInteger != 0 {
							ident++ // an index/ordinal of the entry
						}
					}
				}
				if ident < 2 {
					viol = fmt.Sprintf("%s: the de-duplication key is built from path text and reason only: two different entries with the same template collapse into one, so the third and later duplicates of a route are never named in any conflict and their methods get no warning", w.pos(kv.Pos()))
				}
			}
			o := r.add("C15.c", "fieldflow", ac+":dedupe-key-identity", "the `seen` key depends on the identity of both entries (place in the list / metadata), not only on their path text", []string{ac}, sites, viol)
			o.NonTrivial = true
		}
	}

	// ---- C15.d what is fed in
	const gre = "(*core/validators.ApiValidator).getRouteEntries"
	if fi := need(c, r, "C15.d", gre); fi != nil {
		ret := w.lookupType(pkgPaths, "RouteEntry")
		viol := ""
		var sites []string
		sk := w.fieldSinks(fi, ret, "Path")
		if len(sk) != 1 {
			viol = fmt.Sprintf("expected one RouteEntry.Path sink, found %d", len(sk))
		}
		for _, s := range sk {
			sites = append(sites, w.pos(s.Pos))
			a := w.exprAtoms(fi, s.Expr)
			if !a.Fields["core/metadata.ControllerMeta.Struct"] {
				viol = fmt.Sprintf("%s: RouteEntry.Path does not include the controller's own @Route: routes of controllers with different prefixes are reported as conflicting and equal full paths composed differently are missed (%s)", w.pos(s.Pos), a)
			} else if !a.Fields["core/metadata.ControllerMeta.Receivers"] && !a.hasIdentType("core/metadata.ReceiverMeta") {
				viol = fmt.Sprintf("%s: RouteEntry.Path does not include the method's @Route (%s)", w.pos(s.Pos), a)
			} else if !a.hasCall("common.RemoveDuplicateSlash") {
				viol = fmt.Sprintf("%s: the full path is not composed like the spec/routes generators compose it (common.RemoveDuplicateSlash(controller + route))", w.pos(s.Pos))
			}
			if !a.Idents["const:core/annotations.GleeceAnnotationRoute"] {
				viol = fmt.Sprintf("%s: RouteEntry.Path is not read from the @Route annotations", w.pos(s.Pos))
			}
			// operand order: controller first
			if be := findConcat(s.Expr); be != nil {
				xa, ya := w.exprAtoms(fi, be.X), w.exprAtoms(fi, be.Y)
				if !xa.Fields["core/metadata.ControllerMeta.Struct"] || ya.Fields["core/metadata.ControllerMeta.Struct"] {
					viol = fmt.Sprintf("%s: the controller route is not the first operand of the concatenation", w.pos(be.Pos()))
				}
			} else {
				viol = fmt.Sprintf("%s: no controller+route concatenation found", w.pos(s.Pos))
			}
		}
		o := r.add("C15.d", "fieldflow", gre+":Path", "RouteEntry.Path = RemoveDuplicateSlash(controller @Route + method @Route), the template the routers register", []string{gre}, sites, viol)
		o.NonTrivial = true

		v2 := ""
		var s2 []string
		for _, s := range w.fieldSinks(fi, ret, "Method") {
			s2 = append(s2, w.pos(s.Pos))
			a := w.exprAtoms(fi, s.Expr)
			if !a.Idents["const:core/annotations.GleeceAnnotationMethod"] {
				v2 = fmt.Sprintf("%s: RouteEntry.Method is not the route's @Method value", w.pos(s.Pos))
			}
		}
		if len(s2) != 1 {
			v2 = "expected one RouteEntry.Method sink"
		}
		r.add("C15.d", "fieldflow", gre+":Method", "RouteEntry.Method = the route's @Method value", []string{gre}, s2, v2)
	}
	ruleEach(c, r, "C15.d", gre,
		func(fi *FuncInfo) func(ast.Expr) bool {
			return w.rangeOverField(fi, "core/metadata.ControllerMeta.Receivers")
		}, "controller.Receivers",
		func(fi *FuncInfo) func(ast.Node) bool { return w.appendTo(fi, w.resultSlice(fi)) }, "append(entries, …)", nil, false, "every receiver of every controller becomes a route entry")
	const vc = "(*core/validators.ApiValidator).validateControllers"
	ruleEach(c, r, "C15.d", vc,
		func(fi *FuncInfo) func(ast.Expr) bool {
			return w.rangeOverField(fi, "core/validators.ApiValidator.controllers")
		}, "v.controllers",
		func(fi *FuncInfo) func(ast.Node) bool { return w.callPred(fi, gre) }, "getRouteEntries", nil, true, "every controller's routes are fed to the detector")

	// ---- C15.e every conflict produces a warning for both entries
	const ipa = "(*core/validators.ApiValidator).inPlaceAppendPathConflictDiagnostics"
	const adj = "(*core/validators.ApiValidator).adjustDiagsForConflictingEntry"
	if fi := need(c, r, "C15.e", ipa); fi != nil {
		g := w.cfgOf(fi)
		viol := ""
		var sites []string
		loops := w.rangeLoops(fi, w.rangeOverType(fi, "[]core/validators/paths.Conflict"))
		if len(loops) != 1 {
			viol = fmt.Sprintf("expected one loop over conflicts, found %d", len(loops))
		}
		for _, l := range loops {
			isAdj := w.callPred(fi, adj)
			// form 1: two calls, one per side; form 2: an inner loop over {conflict.A, conflict.B}
			var inner *ast.RangeStmt
			ast.Inspect(l.Body, func(n ast.Node) bool {
				rs, ok := n.(*ast.RangeStmt)
				if !ok || inner != nil {
					return true
				}
				if cl, ok := rs.X.(*ast.CompositeLit); ok && len(cl.Elts) == 2 &&
					strings.HasSuffix(exprString(cl.Elts[0]), ".A") && strings.HasSuffix(exprString(cl.Elts[1]), ".B") {
					inner = rs
				}
				return true
			})
			if inner != nil {
				s, v := w.eachIteration(fi, g, inner, func(n ast.Node) bool { return isAdj(n) }, nil, false)
				sites = append(sites, s...)
				if v != "" {
					viol = fmt.Sprintf("an entry of a conflict does not always receive a warning: %s", v)
				}
				s, v = w.eachIteration(fi, g, l, func(n ast.Node) bool { return n == ast.Node(inner.X) }, nil, false)
				sites = append(sites, s...)
				if v != "" && viol == "" {
					viol = fmt.Sprintf("a conflict can be skipped: %s", v)
				}
				continue
			}
			for _, side := range []string{"A", "B"} {
				side := side
				target := func(n ast.Node) bool {
					if !isAdj(n) {
						return false
					}
					cl := n.(*ast.CallExpr)
					return len(cl.Args) >= 2 && strings.HasSuffix(exprString(cl.Args[1]), "."+side)
				}
				s, v := w.eachIteration(fi, g, l, target, nil, false)
				sites = append(sites, s...)
				if v != "" {
					viol = fmt.Sprintf("entry %s of a conflict does not always receive a warning: %s", side, v)
				}
			}
		}
		o := r.add("C15.e", "each-iteration", ipa+":both-sides-warned", "for every reported conflict both entries get a route-conflict warning (no per-receiver suppression)", []string{ipa, adj}, sites, viol)
		o.NonTrivial = true
		// conflicts come from FindConflicts over the collected entries
		v2 := "the conflicts iterated are not paths.FindConflicts(routeEntries)"
		var s2 []string
		for _, cl := range callsIn(fi.SSA, false, nameIs(fc)) {
			s2 = append(s2, w.pos(cl.Pos()))
			if len(fi.SSA.Params) == 3 && cl.Common().Args[0] == ssa.Value(fi.SSA.Params[2]) {
				v2 = ""
			}
		}
		r.add("C15.e", "fieldflow", ipa+":conflicts-source", "the warnings are derived from FindConflicts over all route entries", []string{ipa}, s2, v2)

		// the extended list is handed back (append may reallocate: a caller that keeps its
		// own slice header never sees the warnings)
		v3 := ""
		var s3 []string
		nWith := 0
		for _, ex := range exitsOf(fi.SSA) {
			if ex.Ret == nil || ex.Kind == exitFailure {
				continue
			}
			s3 = append(s3, w.pos(retPos(ex)))
			if len(ex.Ret.Results) > 0 && sliceOf(ex.Ret.Results[0]).Calls[adj] {
				nWith++
			}
		}
		if nWith == 0 {
			v3 = fmt.Sprintf("%s does not return the list the conflict warnings were appended to", ipa)
		}
		const val = "(*core/validators.ApiValidator).Validate"
		if vfi := need(c, r, "C15.e", val); vfi != nil {
			for _, ex := range exitsOf(vfi.SSA) {
				if ex.Ret == nil || ex.Kind == exitFailure {
					continue
				}
				s3 = append(s3, w.pos(retPos(ex)))
				if len(ex.Ret.Results) == 0 || !sliceOf(unspill(ex.Ret.Results[0], ex.Block)).Calls[ipa] {
					if v3 == "" {
						v3 = fmt.Sprintf("%s: Validate succeeds with a diagnostics list that is not the one returned by %s: route-conflict warnings appended there are lost", w.pos(retPos(ex)), ipa)
					}
				}
			}
		}
		r.add("C15.e", "fieldflow", ipa+":result-handed-back", "the diagnostics Validate returns on success are the list the conflict warnings were appended to", []string{ipa, val}, s3, v3)
	}
	if fi := need(c, r, "C15.e", adj); fi != nil {
		// every exit added the warning and returns a list containing the controller diagnostic
		viol := ""
		var sites []string
		adds := callsIn(fi.SSA, false, func(n string) bool { return strings.HasSuffix(n, "EntityDiagnostic).AddDiagnostic") })
		for _, a := range adds {
			sites = append(sites, w.pos(a.Pos()))
		}
		blocked := map[*ssa.BasicBlock]bool{}
		for _, a := range adds {
			blocked[a.Block()] = true
		}
		seenBlocks, _ := reachAvoiding(fi.SSA, blocked, nil)
		for _, ex := range exitsOf(fi.SSA) {
			if ex.Ret != nil && seenBlocks[ex.Ret.Block()] {
				viol = fmt.Sprintf("%s: a return is reachable without the warning having been attached", w.pos(retPos(ex)))
			}
		}
		if len(adds) == 0 {
			viol = "no AddDiagnostic call"
		}
		// warning carries DiagRouteConflict and the receiver's file/range
		okCode := false
		for _, cl := range callsIn(fi.SSA, false, nameIs("core/validators/diagnostics.NewWarningDiagnostic")) {
			sites = append(sites, w.pos(cl.Pos()))
			a := sliceOf(cl.Common().Args[2])
			for _, k := range a.Consts {
				if strings.Contains(k, "route-conflict") {
					okCode = true
				}
			}
		}
		if !okCode {
			viol = "the warning is not created with NewWarningDiagnostic(…, DiagRouteConflict, …)"
		}
		r.add("C15.e", "mustcall", adj+":warning-attached", "adjustDiagsForConflictingEntry always attaches a DiagRouteConflict warning", []string{adj}, sites, viol)
	}
	ruleMustCall(c, r, "C15.e", fc, pkgPaths+".inPlaceSortConflicts", "the conflict list is sorted before it is returned")

	ruleNoCompaction(c, r, "C15.b", "core/validators")
	// every element filter in these packages is a reviewed one
	ruleSkipInventory(c, r, "C15.b", loadSkipTable(c.VerifDir), 5, "core/validators/paths")
	// what the conflict search and the code that turns conflicts into warnings decide on
	ruleDecisionInputs(c, r, "C15.e", "core/validators/paths", "core/validators/diagnostics")
	ruleDecisionInputsOf(c, r, "C15.e", "(*core/validators.ApiValidator).Validate", "(*core/validators.ApiValidator).validateControllers", "(*core/validators.ApiValidator).adjustDiagsForConflictingEntry", "(*core/validators.ApiValidator).getRouteEntries", "(*core/validators.ApiValidator).inPlaceAppendPathConflictDiagnostics")
}

func (a *Atoms) hasIdentType(sub string) bool {
	for k := range a.Idents {
		if strings.Contains(k, sub) {
			return true
		}
	}
	return false
}

// enclosingFunc: short key of the declared function whose body contains pos.
func (w *World) enclosingFunc(p interface{}, pos token.Pos) string {
	for k, fi := range w.Funcs {
		if fi.Decl != nil && fi.Decl.Pos() <= pos && pos <= fi.Decl.End() {
			return k
		}
	}
	return "<package level>"
}

func findConcat(e ast.Expr) *ast.BinaryExpr {
	var out *ast.BinaryExpr
	ast.Inspect(e, func(n ast.Node) bool {
		if be, ok := n.(*ast.BinaryExpr); ok && be.Op == token.ADD && out == nil {
			out = be
			return false
		}
		return true
	})
	return out
}

// checkEndpointKeysAgree: every access to a trie node's endpoint table - registration, the
// duplicate test, the walks that collect endpoints of a verb - derives its key the same way.
// A key that is normalised (case-folded, trimmed) where endpoints are registered but used as
// written where they are looked up makes whole groups of routes invisible to the walks.
func checkEndpointKeysAgree(c *Ctx, r *Report, clause string) {
	w := c.W
	tn := w.lookupType("core/validators/paths", "trieNode")
	fld := fieldOf(tn, "endpoint")
	if fld == nil {
		r.add(clause, "sibling", "trie-endpoint-keys", "", nil, []string{"core/validators/paths:0"}, "trieNode.endpoint not found")
		return
	}
	type acc struct {
		pos   string
		calls string
	}
	var all []acc
	for _, fn := range w.SSAFuncs {
		if fn.Pkg == nil || short(fn.Pkg.Pkg.Path()) != "core/validators/paths" {
			continue
		}
		allInstrsLocal(fn, false, func(_ *ssa.Function, _ *ssa.BasicBlock, _ int, ins ssa.Instruction) {
			var m, k ssa.Value
			switch x := ins.(type) {
			case *ssa.MapUpdate:
				m, k = x.Map, x.Key
			case *ssa.Lookup:
				m, k = x.X, x.Index
			default:
				return
			}
			if !sliceOf(m).hasField(fld) {
				return
			}
			var cs []string
			for cl := range sliceOf(k).Calls {
				if !isPlumbingCall(cl) && !strings.HasPrefix(cl, "func:") {
					cs = append(cs, cl)
				}
			}
			sort.Strings(cs)
			all = append(all, acc{w.pos(ins.Pos()), strings.Join(cs, ",")})
		})
	}
	viol := ""
	var sites []string
	for i, a := range all {
		sites = append(sites, a.pos)
		if i > 0 && a.calls != all[0].calls {
			viol = fmt.Sprintf("%s: this access to trieNode.endpoint derives its key through [%s], the access at %s through [%s]: endpoints registered under one spelling of the verb are not found under the other, and the overlaps between those routes go unreported", a.pos, a.calls, all[0].pos, all[0].calls)
		}
	}
	if len(all) < 3 {
		viol = fmt.Sprintf("expected the registration, the duplicate test and the collecting walk to access trieNode.endpoint, found %d accesses", len(all))
	}
	r.add(clause, "sibling", "trie-endpoint-keys", "all accesses to a trie node's endpoint table key it the same way", []string{"core/validators/paths.trieNode.endpoint"}, sites, viol)
}

// argsTyped: the operands of a call whose type is the given one, in order (a rule about "the
// entry handed over" means the operand of that type, wherever a refactoring moved it).
func argsTyped(cl ssa.CallInstruction, typ string) []ssa.Value {
	var out []ssa.Value
	for _, a := range cl.Common().Args {
		if short(types.TypeString(a.Type(), nil)) == typ {
			out = append(out, a)
		}
	}
	return out
}
