package main

import (
	"fmt"
	"go/token"
	"go/types"
	"sort"

	"golang.org/x/tools/go/ssa"
)

// derefParamSummary: indices of the parameters of fn that are dereferenced (method invoked
// on an interface parameter, field/element access or load through a pointer parameter,
// or handed to another gleece function in such a position) at a point that is not
// dominated by a non-nil test of that parameter.
func derefParamSummary(fn *ssa.Function, memo map[*ssa.Function]map[int]bool, depth int) map[int]bool {
	if r, ok := memo[fn]; ok {
		return r
	}
	out := map[int]bool{}
	memo[fn] = out // cut recursion
	if fn == nil || len(fn.Blocks) == 0 || depth > bound(3) {
		return out
	}
	idx := map[ssa.Value]int{}
	for i, p := range fn.Params {
		switch p.Type().Underlying().(type) {
		case *types.Pointer, *types.Interface:
			idx[p] = i
		}
	}
	if len(idx) == 0 {
		return out
	}
	for _, b := range fn.Blocks {
		for _, ins := range b.Instrs {
			mark := func(v ssa.Value) {
				if i, ok := idx[v]; ok && !knownNonNil(v, b) {
					out[i] = true
				}
			}
			switch x := ins.(type) {
			case *ssa.UnOp:
				if x.Op == token.MUL {
					mark(x.X)
				}
			case *ssa.FieldAddr:
				mark(x.X)
			case ssa.CallInstruction:
				com := x.Common()
				if com.IsInvoke() {
					mark(com.Value)
					continue
				}
				if callee := com.StaticCallee(); callee != nil && callee.Pkg != nil && isGleecePkg(callee.Pkg.Pkg.Path()) {
					sub := derefParamSummary(callee, memo, depth+1)
					for ai, a := range com.Args {
						if sub[ai] {
							mark(a)
						}
					}
				}
			}
		}
	}
	return out
}

type nilArgSite struct {
	Caller, Callee string
	Pos            token.Pos
	Key            string
}

// nilArgSites: call sites that pass a value which may be the nil literal (directly, or as
// one edge of a phi / the zero value of a `var x T` never assigned on some path) to a
// parameter the callee dereferences unguarded.
func (w *World) nilArgSites() []nilArgSite {
	memo := map[*ssa.Function]map[int]bool{}
	var out []nilArgSite
	// mayBeNilLiteral reports whether v may be nil at b and describes where its values come from
	mayBeNilLiteral := func(v ssa.Value, b *ssa.BasicBlock) (bool, string) {
		if knownNonNil(v, b) {
			return false, ""
		}
		may := false
		var srcs []string
		for _, lv := range phiLeaves(v) {
			switch x := lv.(type) {
			case *ssa.Const:
				if x.IsNil() {
					may = true
					srcs = append(srcs, "nil")
				}
			case *ssa.Lookup:
				if _, isMap := x.X.Type().Underlying().(*types.Map); isMap && !x.CommaOk {
					may = true // zero value for a missing key
					srcs = append(srcs, "map-lookup")
				}
			case *ssa.Extract:
				if lk, ok := x.Tuple.(*ssa.Lookup); ok && lk.CommaOk && x.Index == 0 {
					// v, ok := m[k]: nil unless a dominating branch established ok
					okKnown := false
					for _, f := range dominatingFacts(b) {
						cnd, p := unwrapNot(f.Cond, f.Pol)
						if e2, isE := cnd.(*ssa.Extract); isE && e2.Tuple == x.Tuple && e2.Index == 1 && p {
							okKnown = true
						}
					}
					if !okKnown {
						may = true
						srcs = append(srcs, "map-lookup")
					}
				} else if cl, ok := x.Tuple.(*ssa.Call); ok {
					srcs = append(srcs, "call:"+calleeName(cl))
				}
			case *ssa.Call:
				srcs = append(srcs, "call:"+calleeName(x))
			default:
				srcs = append(srcs, fmt.Sprintf("%T", lv))
			}
		}
		sort.Strings(srcs)
		return may, fmt.Sprint(dedupSortedPlain(srcs))
	}
	for _, fn := range w.SSAFuncs {
		for _, b := range fn.Blocks {
			for _, ins := range b.Instrs {
				call, ok := ins.(ssa.CallInstruction)
				if !ok {
					continue
				}
				callee := call.Common().StaticCallee()
				if callee == nil || callee.Pkg == nil || !isGleecePkg(callee.Pkg.Pkg.Path()) {
					continue
				}
				sum := derefParamSummary(callee, memo, 0)
				for ai, a := range call.Common().Args {
					if !sum[ai] {
						continue
					}
					switch a.Type().Underlying().(type) {
					case *types.Pointer, *types.Interface:
					default:
						continue
					}
					if may, src := mayBeNilLiteral(a, b); may {
						out = append(out, nilArgSite{Caller: fnShort(fn), Callee: fnShort(callee), Pos: call.Pos(),
							Key: fmt.Sprintf("%s->%s#arg%d from %s", fnShort(fn), fnShort(callee), ai, src)})
					}
				}
			}
		}
	}
	sort.Slice(out, func(i, j int) bool { return out[i].Pos < out[j].Pos })
	return out
}
