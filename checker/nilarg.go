package main

import (
	"fmt"
	"go/token"
	"go/types"
	"sort"
	"strings"

	"golang.org/x/tools/go/ssa"
)

// derefSummaries: for every gleece function, the indices of its pointer/interface
// parameters that are dereferenced (method invoked on an interface parameter, field or
// element access or load through a pointer parameter, or handed on to another gleece
// function in such a position) at a point not dominated by a non-nil test of that
// parameter. Computed once as a fixpoint over the static call graph.
func (w *World) derefSummaries() map[*ssa.Function]map[int]bool {
	if w.derefSum != nil {
		return w.derefSum
	}
	sum := map[*ssa.Function]map[int]bool{}
	type passOn struct {
		callee *ssa.Function
		argIdx int
		param  int
	}
	pass := map[*ssa.Function][]passOn{}
	fns := w.SSAFuncs
	for _, fn := range fns {
		out := map[int]bool{}
		sum[fn] = out
		idx := map[ssa.Value]int{}
		for i, p := range fn.Params {
			switch p.Type().Underlying().(type) {
			case *types.Pointer, *types.Interface:
				idx[p] = i
			}
		}
		if len(idx) == 0 {
			continue
		}
		for _, b := range fn.Blocks {
			for _, ins := range b.Instrs {
				mark := func(v ssa.Value) {
					if i, ok := idx[v]; ok && !knownNonNil(v, b) {
						out[i] = true
					}
				}
				switch x := ins.(type) {
				case *ssa.UnOp:
					if x.Op == token.MUL {
						mark(x.X)
					}
				case *ssa.FieldAddr:
					mark(x.X)
				case ssa.CallInstruction:
					com := x.Common()
					if com.IsInvoke() {
						mark(com.Value)
						continue
					}
					if callee := com.StaticCallee(); callee != nil && callee.Pkg != nil && isGleecePkg(callee.Pkg.Pkg.Path()) {
						for ai, a := range com.Args {
							if i, ok := idx[a]; ok && !knownNonNil(a, b) {
								pass[fn] = append(pass[fn], passOn{callee, ai, i})
							}
						}
					}
				}
			}
		}
	}
	for changed := true; changed; {
		changed = false
		for fn, ps := range pass {
			for _, p := range ps {
				if sum[p.callee][p.argIdx] && !sum[fn][p.param] {
					sum[fn][p.param] = true
					changed = true
				}
			}
		}
	}
	w.derefSum = sum
	return sum
}

type nilArgSite struct {
	Caller, Callee string
	Pos            token.Pos
	Key            string
}

// nilArgSites: call sites that pass a value which may be the nil literal (directly, or as
// one edge of a phi / the zero value of a `var x T` never assigned on some path) to a
// parameter the callee dereferences unguarded.
// optionalConfigPointer: v is loaded from a pointer-typed field of the configuration
// closure that is not `required`: nil whenever the user leaves that section out.
func (w *World) optionalConfigPointer(v ssa.Value) (string, bool) {
	ld, ok := v.(*ssa.UnOp)
	if !ok || ld.Op != token.MUL {
		return "", false
	}
	fa, ok := ld.X.(*ssa.FieldAddr)
	if !ok {
		return "", false
	}
	fv := structFieldVar(fa.X.Type(), fa.Field)
	if fv == nil {
		return "", false
	}
	if _, isPtr := fv.Type().Underlying().(*types.Pointer); !isPtr {
		return "", false
	}
	if w.cfgOptional == nil {
		w.cfgOptional = map[*types.Var]string{}
		if root := w.lookupType("definitions", "GleeceConfig"); root != nil {
			for _, f := range configClosure(root) {
				if _, isPtr := f.Var.Type().Underlying().(*types.Pointer); !isPtr {
					continue
				}
				req := false
				for _, ru := range strings.Split(f.Tag.Get("validate"), ",") {
					if ru == "required" {
						req = true
					}
				}
				if !req {
					w.cfgOptional[f.Var] = ownerName(f.Owner) + "." + f.Var.Name()
				}
			}
		}
	}
	name, ok := w.cfgOptional[fv]
	return name, ok
}

func (w *World) nilArgSites() []nilArgSite {
	sums := w.derefSummaries()
	var out []nilArgSite
	// mayBeNilLiteral reports whether v may be nil at b and describes where its values come from
	mayBeNilLiteral := func(v ssa.Value, b *ssa.BasicBlock) (bool, string) {
		if knownNonNil(v, b) {
			return false, ""
		}
		may := false
		var srcs []string
		for _, lv := range phiLeaves(v) {
			switch x := lv.(type) {
			case *ssa.Const:
				if x.IsNil() {
					may = true
					srcs = append(srcs, "nil")
				}
			case *ssa.Lookup:
				if _, isMap := x.X.Type().Underlying().(*types.Map); isMap && !x.CommaOk {
					may = true // zero value for a missing key
					srcs = append(srcs, "map-lookup")
				}
			case *ssa.Extract:
				if lk, ok := x.Tuple.(*ssa.Lookup); ok && lk.CommaOk && x.Index == 0 {
					// v, ok := m[k]: nil unless a dominating branch established ok
					okKnown := false
					for _, f := range dominatingFacts(b) {
						cnd, p := unwrapNot(f.Cond, f.Pol)
						if e2, isE := cnd.(*ssa.Extract); isE && e2.Tuple == x.Tuple && e2.Index == 1 && p {
							okKnown = true
						}
					}
					if !okKnown {
						may = true
						srcs = append(srcs, "map-lookup")
					}
				} else if cl, ok := x.Tuple.(*ssa.Call); ok {
					srcs = append(srcs, "call:"+calleeName(cl))
				}
			case *ssa.Call:
				srcs = append(srcs, "call:"+calleeName(x))
			case *ssa.UnOp:
				if name, ok := w.optionalConfigPointer(x); ok {
					may = true
					srcs = append(srcs, "config-optional:"+name)
				} else {
					srcs = append(srcs, "load")
				}
			default:
				srcs = append(srcs, fmt.Sprintf("%T", lv))
			}
		}
		sort.Strings(srcs)
		return may, fmt.Sprint(dedupSortedPlain(srcs))
	}
	for _, fn := range w.SSAFuncs {
		for _, b := range fn.Blocks {
			for _, ins := range b.Instrs {
				call, ok := ins.(ssa.CallInstruction)
				if !ok {
					continue
				}
				callee := call.Common().StaticCallee()
				if callee == nil || callee.Pkg == nil || !isGleecePkg(callee.Pkg.Pkg.Path()) {
					continue
				}
				sum := sums[callee]
				if sum == nil && callee.Origin() != nil {
					sum = sums[callee.Origin()]
				}
				for ai, a := range call.Common().Args {
					if !sum[ai] {
						continue
					}
					switch a.Type().Underlying().(type) {
					case *types.Pointer, *types.Interface:
					default:
						continue
					}
					if may, src := mayBeNilLiteral(a, b); may {
						out = append(out, nilArgSite{Caller: fnShort(fn), Callee: fnShort(callee), Pos: call.Pos(),
							Key: fmt.Sprintf("%s->%s#arg%d from %s", fnShort(fn), fnShort(callee), ai, src)})
					}
				}
			}
		}
	}
	sort.Slice(out, func(i, j int) bool { return out[i].Pos < out[j].Pos })
	return out
}

// optionalConfigDerefSites: direct dereferences of an optional configuration pointer that
// are not dominated by a nil test.
func (w *World) optionalConfigDerefSites() []nilArgSite {
	var out []nilArgSite
	for _, fn := range w.SSAFuncs {
		for _, b := range fn.Blocks {
			for _, ins := range b.Instrs {
				ld, ok := ins.(*ssa.UnOp)
				if !ok {
					continue
				}
				name, ok := w.optionalConfigPointer(ld)
				if !ok {
					continue
				}
				for _, use := range derefUses(ld, map[ssa.Value]bool{}, 0) {
					if knownNonNil(use.val, use.ins.Block()) || knownNonNil(ld, use.ins.Block()) || nonNilByEquivLoad(ld, use.ins.Block()) {
						continue
					}
					out = append(out, nilArgSite{Caller: fnShort(fn), Callee: name, Pos: use.ins.Pos(),
						Key: fmt.Sprintf("%s derefs config-optional:%s", fnShort(fn), name)})
				}
			}
		}
	}
	sort.Slice(out, func(i, j int) bool { return out[i].Pos < out[j].Pos })
	return out
}

// nonNilByEquivLoad: a dominating branch established `x != nil` for another load of the
// same field chain (go/ssa performs no CSE, `if c.F != nil { use(c.F.G) }` loads c.F twice).
func nonNilByEquivLoad(v ssa.Value, b *ssa.BasicBlock) bool {
	for _, f := range dominatingFacts(b) {
		cnd, p := unwrapNot(f.Cond, f.Pol)
		bo, ok := cnd.(*ssa.BinOp)
		if !ok {
			continue
		}
		var other ssa.Value
		if isNilConst(bo.Y) {
			other = bo.X
		} else if isNilConst(bo.X) {
			other = bo.Y
		} else {
			continue
		}
		if !((bo.Op == token.NEQ && p) || (bo.Op == token.EQL && !p)) {
			continue
		}
		if equivLoad(other, v, 0) {
			return true
		}
	}
	return false
}
