package main

import (
	"encoding/json"
	"fmt"
	"os"
	"path/filepath"
	"sort"
	"strings"

	"golang.org/x/tools/go/ssa"
)

// ruleSortInventory: every in-place sort (sort.*, slices.Sort*, slices.Reverse) in the
// analysed packages is a reviewed one: key = function + what is sorted. A sort is an
// in-place mutation of its operand: applied to a shared slice it changes what every later
// reader sees, and applied to positional data (call arguments) it changes meaning.
func ruleSortInventory(c *Ctx, r *Report, clause string, pkgPrefixes ...string) {
	w := c.W
	table := map[string]string{}
	if b, err := os.ReadFile(filepath.Join(c.VerifDir, "tables", "sorts.json")); err == nil {
		var t struct {
			S map[string]string `json:"sorts"`
		}
		if json.Unmarshal(b, &t) == nil && t.S != nil {
			table = t.S
		}
	}
	count := map[string]int{}
	n := 0
	calls := w.callersOf(func(nm string) bool {
		if strings.HasPrefix(nm, "slices.Sorted") {
			return false // returns a new slice, nothing is reordered in place
		}
		return strings.HasPrefix(nm, "sort.") || strings.HasPrefix(nm, "slices.Sort") || nm == "slices.Reverse"
	})
	sort.Slice(calls, func(i, j int) bool { return calls[i].Pos() < calls[j].Pos() })
	for _, cl := range calls {
		fn := fnShort(cl.Parent())
		rel := strings.TrimLeft(fn, "(*")
		in := len(pkgPrefixes) == 0
		for _, p := range pkgPrefixes {
			if strings.HasPrefix(rel, p+".") || strings.HasPrefix(rel, p+"/") {
				in = true
			}
		}
		if !in || len(cl.Common().Args) == 0 {
			continue
		}
		n++
		if isFreshCopy(cl.Common().Args[0]) {
			continue // a private copy is sorted: no other reader can observe it
		}
		what := sortOperandDesc(cl.Common().Args[0])
		base := fn + ":sorts(" + what + ")"
		count[base]++
		key := base
		if count[base] > 1 {
			key = fmt.Sprintf("%s#%d", base, count[base])
		}
		viol := ""
		desc := "in-place sort in " + fn
		if reason, ok := table[key]; ok {
			desc += ": " + reason
		} else {
			viol = fmt.Sprintf("%s: %s sorts %s in place and is not in the reviewed table (tables/sorts.json): if the slice is shared (metadata stored on a graph node, the route/parameter lists handed to the generators) every later reader sees the new order - positional data such as call arguments changes meaning, first-come allocations change identifiers, and a later pass of the same session no longer equals a fresh one", w.pos(cl.Pos()), fn, what)
		}
		r.add(clause, "sorts", key, desc, []string{fn}, []string{w.pos(cl.Pos())}, viol)
	}
	if n < 3 {
		r.undecided(clause, "sorts", "coverage", "", fmt.Sprintf("only %d sort calls found (floor 3)", n))
	}
}

func sortOperandDesc(v ssa.Value) string {
	a := sliceOf(v)
	var parts []string
	for _, f := range a.fieldNames() {
		parts = append(parts, "."+f)
	}
	for cl := range a.Calls {
		if cl != "builtin.append" && cl != "builtin.make" {
			parts = append(parts, cl+"()")
		}
	}
	for p := range a.Params {
		parts = append(parts, "param <"+short(p.Type().String())+">")
	}
	sort.Strings(parts)
	if len(parts) == 0 {
		return "a local slice"
	}
	return strings.Join(parts, " ")
}

// isFreshCopy: v is the result of slices.Clone (possibly converted), a copy nobody else holds.
func isFreshCopy(v ssa.Value) bool {
	switch x := stripTrivial(v).(type) {
	case *ssa.Call:
		return strings.HasPrefix(calleeName(x), "slices.Clone")
	case *ssa.MakeInterface:
		return isFreshCopy(x.X)
	}
	return false
}
