package main

import (
	"encoding/json"
	"fmt"
	"os"
	"path/filepath"
	"sort"
	"strings"

	"golang.org/x/tools/go/ssa"
)

// ruleSortInventory: every in-place sort (sort.*, slices.Sort*, slices.Reverse) in the
// analysed packages is a reviewed one: key = function + what is sorted. A sort is an
// in-place mutation of its operand: applied to a shared slice it changes what every later
// reader sees, and applied to positional data (call arguments) it changes meaning.
func ruleSortInventory(c *Ctx, r *Report, clause string, pkgPrefixes ...string) {
	w := c.W
	table := map[string]string{}
	if b, err := os.ReadFile(filepath.Join(c.VerifDir, "tables", "sorts.json")); err == nil {
		var t struct {
			S map[string]string `json:"sorts"`
		}
		if json.Unmarshal(b, &t) == nil && t.S != nil {
			table = t.S
		}
	}
	count := map[string]int{}
	n := 0
	calls := w.callersOf(func(nm string) bool {
		if strings.HasPrefix(nm, "slices.Sorted") {
			return false // returns a new slice, nothing is reordered in place
		}
		return strings.HasPrefix(nm, "sort.") || strings.HasPrefix(nm, "slices.Sort") || nm == "slices.Reverse"
	})
	sort.Slice(calls, func(i, j int) bool { return calls[i].Pos() < calls[j].Pos() })
	for _, cl := range calls {
		fn := fnShort(cl.Parent())
		rel := strings.TrimLeft(fn, "(*")
		in := len(pkgPrefixes) == 0
		for _, p := range pkgPrefixes {
			if strings.HasPrefix(rel, p+".") || strings.HasPrefix(rel, p+"/") {
				in = true
			}
		}
		if !in || len(cl.Common().Args) == 0 {
			continue
		}
		n++
		if isFreshCopy(cl.Common().Args[0]) {
			continue // a private copy is sorted: no other reader can observe it
		}
		what := sortOperandDesc(cl.Common().Args[0])
		base := fn + ":sorts(" + what + ")"
		count[base]++
		key := base
		if count[base] > 1 {
			key = fmt.Sprintf("%s#%d", base, count[base])
		}
		viol := ""
		desc := "in-place sort in " + fn
		if reason, ok := table[key]; ok {
			desc += ": " + reason
		} else {
			viol = fmt.Sprintf("%s: %s sorts %s in place and is not in the reviewed table (tables/sorts.json): if the slice is shared (metadata stored on a graph node, the route/parameter lists handed to the generators) every later reader sees the new order - positional data such as call arguments changes meaning, first-come allocations change identifiers, and a later pass of the same session no longer equals a fresh one", w.pos(cl.Pos()), fn, what)
		}
		r.add(clause, "sorts", key, desc, []string{fn}, []string{w.pos(cl.Pos())}, viol)
	}
	if n < 3 {
		r.undecided(clause, "sorts", "coverage", "", fmt.Sprintf("only %d sort calls found (floor 3)", n))
	}
}

// sortOperandDesc names the container that is sorted: the fields, calls and parameters the
// slice itself comes from. Keys and indices used to pick it out of a map or slice are not
// part of its identity.
func sortOperandDesc(v ssa.Value) string {
	parts := map[string]bool{}
	seen := map[ssa.Value]bool{}
	var walk func(v ssa.Value, depth int)
	walk = func(v ssa.Value, depth int) {
		if v == nil || seen[v] || depth > 30 {
			return
		}
		seen[v] = true
		switch x := v.(type) {
		case *ssa.Parameter:
			if curWorld != nil && x.Parent().Parent() == nil && curWorld.isNewFn(x.Parent()) {
				bound := false
				for _, o := range curWorld.originValues(x) {
					if o != v {
						bound = true
						walk(o, depth+1)
					}
				}
				if bound {
					return
				}
				// never called directly (registered as a value): its parameter is an input
			}
			parts["param <"+short(x.Type().String())+">"] = true
		case *ssa.FreeVar:
			parts["captured <"+short(x.Type().String())+">"] = true
		case *ssa.Global:
			parts["global "+short(x.String())] = true
		case *ssa.FieldAddr:
			if f := structFieldVar(x.X.Type(), x.Field); f != nil {
				parts["."+f.Name()] = true
			}
			walk(x.X, depth+1)
		case *ssa.Field:
			if f := structFieldVar(x.X.Type(), x.Field); f != nil {
				parts["."+f.Name()] = true
			}
			walk(x.X, depth+1)
		case *ssa.Lookup:
			walk(x.X, depth+1)
		case *ssa.IndexAddr:
			walk(x.X, depth+1)
		case *ssa.Index:
			walk(x.X, depth+1)
		case *ssa.Slice:
			walk(x.X, depth+1)
		case *ssa.UnOp:
			walk(x.X, depth+1)
		case *ssa.ChangeType:
			walk(x.X, depth+1)
		case *ssa.Convert:
			walk(x.X, depth+1)
		case *ssa.MakeInterface:
			walk(x.X, depth+1)
		case *ssa.Extract:
			walk(x.Tuple, depth+1)
		case *ssa.Phi:
			for _, e := range x.Edges {
				walk(e, depth+1)
			}
		case *ssa.Alloc:
			for _, sv := range storedInto(x, 0) {
				walk(sv, depth+1)
			}
		case *ssa.Call:
			if curWorld != nil {
				if callee := curWorld.newCallee(x); callee != nil {
					for _, o := range curWorld.originValues(x) {
						if o != v {
							walk(o, depth+1)
						}
					}
					return
				}
			}
			n := calleeName(x)
			switch n {
			case "builtin.append":
				if len(x.Call.Args) > 0 {
					walk(x.Call.Args[0], depth+1)
				}
				return
			case "builtin.make", "":
				return
			}
			parts[n+"()"] = true
			if x.Call.IsInvoke() {
				walk(x.Call.Value, depth+1)
			} else if len(x.Call.Args) > 0 && x.Call.Signature().Recv() != nil {
				walk(x.Call.Args[0], depth+1)
			}
		}
	}
	walk(v, 0)
	if len(parts) == 0 {
		return "a local slice"
	}
	return strings.Join(keys(parts), " ")
}

// isFreshCopy: v is the result of slices.Clone (possibly converted), a copy nobody else holds.
func isFreshCopy(v ssa.Value) bool {
	switch x := stripTrivial(v).(type) {
	case *ssa.Call:
		return strings.HasPrefix(calleeName(x), "slices.Clone")
	case *ssa.MakeInterface:
		return isFreshCopy(x.X)
	}
	return false
}
