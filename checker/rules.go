package main

import (
	"fmt"
	"go/ast"
	"go/token"
	"go/types"
	"sort"
	"strings"

	"golang.org/x/tools/go/ssa"
)

// Shared, reusable rule drivers. Each records one obligation in the report.

const (
	pkgKin     = "github.com/getkin/kin-openapi/openapi3"
	pkgV3      = "github.com/pb33f/libopenapi/datamodel/high/v3"
	pkgHBase   = "github.com/pb33f/libopenapi/datamodel/high/base"
	pkgRaymond = "github.com/aymerick/raymond"
)

// need resolves a function anchor; a missing anchor is an undecided obligation.
func need(c *Ctx, r *Report, clause, key string) *FuncInfo {
	fi := c.W.fn(key)
	if fi == nil || fi.SSA == nil {
		r.undecided(clause, "anchor", key, "anchor function must exist", "function "+key+" not found in /repo (renamed or removed): rule cannot be evaluated")
		return nil
	}
	return fi
}

// ruleMustCallOK: every non-failure exit of fn passed a successful call to callee.
func ruleMustCallOK(c *Ctx, r *Report, clause string, fnKey string, callee string, resultIdx int, desc string) {
	fi := need(c, r, clause, fnKey)
	if fi == nil {
		return
	}
	sites, v := c.W.mustPassOK(fi.SSA, nameIs(callee), resultIdx, callee)
	r.add(clause, "mustcall", fnKey+"->"+callee, desc, []string{fnKey, callee}, append(sites, c.W.pos(fi.Decl.Pos())), v)
}

// ruleErrPropagates: a failure of callee inside fn always ends in a failure exit of fn.
func ruleErrPropagates(c *Ctx, r *Report, clause, fnKey, callee string, resultIdx int, desc string) {
	fi := need(c, r, clause, fnKey)
	if fi == nil {
		return
	}
	sites, v := c.W.errPropagates(fi.SSA, nameIs(callee), resultIdx, callee)
	r.add(clause, "errprop", fnKey+"<-"+callee, desc, []string{fnKey, callee}, append(sites, c.W.pos(fi.Decl.Pos())), v)
}

// ruleMustCall: every non-failure exit passes through a call to callee (result untested).
func ruleMustCall(c *Ctx, r *Report, clause string, fnKey string, callee string, desc string) {
	fi := need(c, r, clause, fnKey)
	if fi == nil {
		return
	}
	sites, v := c.W.mustPassCall(fi.SSA, nameIs(callee), callee)
	if v != "" && c.W.absorbedInto(callee, fi) {
		// the helper is gone and everything it mentioned is now written in fnKey itself
		v = ""
		desc += " (the helper was inlined: its body is part of " + fnKey + " now)"
	}
	r.add(clause, "mustcall", fnKey+"->"+callee+"(any)", desc, []string{fnKey, callee}, append(sites, c.W.pos(fi.Decl.Pos())), v)
}

// ruleSiteAfterOK: each call to `site` in fn is only reachable after a successful call to `guard`.
func ruleSiteAfterOK(c *Ctx, r *Report, clause, fnKey, site, guard string, resultIdx int, desc string) {
	fi := need(c, r, clause, fnKey)
	if fi == nil {
		return
	}
	w := c.W
	sitesCalls := callsIn(fi.SSA, false, nameIs(site))
	key := fnKey + ":" + site + "<-" + guard
	if len(sitesCalls) == 0 {
		r.add(clause, "guardedby", key, desc, []string{fnKey}, []string{w.pos(fi.Decl.Pos())}, fmt.Sprintf("no call to %s in %s", site, fnKey))
		return
	}
	var sites []string
	viol := ""
	for _, s := range sitesCalls {
		sites = append(sites, w.pos(s.Pos()))
		gs, ok := w.afterOK(fi.SSA, s, nameIs(guard), resultIdx, guard, 0)
		sites = append(sites, gs...)
		if !ok {
			viol = fmt.Sprintf("%s: %s is reachable without a successful %s", w.pos(s.Pos()), site, guard)
		}
	}
	r.add(clause, "guardedby", key, desc, []string{fnKey, site, guard}, sites, viol)
}

// ---------------------------------------------------------------------------
// fieldflow

type ffSpec struct {
	Clause string
	Fn     string       // function key
	Owner  *types.Named // struct type that owns the sink field
	Field  string
	Must   []string // qualified source fields that must all be among the atoms
	// Allowed: calls permitted between source and sink (others are violations);
	// "*" permits any.
	AllowedCalls []string
	// AllowedFields: further fields that may appear.
	AllowedFields []string
	MustCalls     []string
	MinSinks      int
	AllowArith    bool // the value is computed from the source (a 1-based position minus one), not copied
	Desc          string
}

func ownerName(n *types.Named) string {
	if n == nil {
		return "<nil>"
	}
	return short(n.Obj().Pkg().Path()) + "." + n.Obj().Name()
}

func ruleFieldFlow(c *Ctx, r *Report, s ffSpec) {
	if s.Owner == nil {
		r.undecided(s.Clause, "fieldflow", s.Fn+":"+s.Field, s.Desc, "sink struct type not found")
		return
	}
	fi := need(c, r, s.Clause, s.Fn)
	if fi == nil {
		return
	}
	w := c.W
	key := s.Fn + ":" + ownerName(s.Owner) + "." + s.Field
	sinks := w.fieldSinks(fi, s.Owner, s.Field)
	min := s.MinSinks
	if min == 0 {
		min = 1
	}
	var sites []string
	viol := ""
	if len(sinks) < min {
		viol = fmt.Sprintf("%s: expected >= %d assignment(s) to %s.%s in %s, found %d", w.pos(fi.Decl.Pos()), min, ownerName(s.Owner), s.Field, s.Fn, len(sinks))
	}
	allowedCall := map[string]bool{}
	anyCall := false
	for _, a := range s.AllowedCalls {
		if a == "*" {
			anyCall = true
		}
		allowedCall[a] = true
	}
	for _, a := range s.MustCalls {
		allowedCall[a] = true
	}
	allowedField := map[string]bool{}
	for _, a := range append(append([]string{}, s.Must...), s.AllowedFields...) {
		allowedField[a] = true
	}
	for _, sk := range sinks {
		sites = append(sites, w.pos(sk.Pos))
		// (a sink written in a helper shared with other functions is read with the arguments THIS function passes)
		var at *Atoms
		w.withHost(s.Fn, func() { at = w.exprAtoms(fi, sk.Expr) })
		for _, m := range s.Must {
			if !at.Fields[m] {
				viol = fmt.Sprintf("%s: %s.%s is not fed from %s (atoms: %s)", w.pos(sk.Pos), ownerName(s.Owner), s.Field, m, at)
			}
		}
		for _, m := range s.MustCalls {
			if !at.Calls[m] && !at.Calls["inlined:"+m] {
				viol = fmt.Sprintf("%s: %s.%s does not pass through %s (atoms: %s)", w.pos(sk.Pos), ownerName(s.Owner), s.Field, m, at)
			}
		}
		for f := range at.Fields {
			if !allowedField[f] && !allowedField["*"] {
				viol = fmt.Sprintf("%s: %s.%s also depends on unexpected field %s", w.pos(sk.Pos), ownerName(s.Owner), s.Field, f)
			}
		}
		if !anyCall {
			// a flow whose calls are enumerated is a copy: nothing is spliced onto the value on the way
			for _, op := range []string{"+", "-", "*", "/", "%"} {
				if at.Ops[op] && !s.AllowArith {
					viol = fmt.Sprintf("%s: %s.%s is computed with `%s` from its source (atoms: %s): the value is no longer the source as written", w.pos(sk.Pos), ownerName(s.Owner), s.Field, op, at)
				}
			}
			for cl := range at.Calls {
				base := strings.TrimPrefix(cl, "inlined:")
				if !allowedCall[base] && !strings.HasPrefix(cl, "conv:") {
					viol = fmt.Sprintf("%s: %s.%s passes through unexpected call %s", w.pos(sk.Pos), ownerName(s.Owner), s.Field, cl)
				}
			}
		}
	}
	r.add(s.Clause, "fieldflow", key, s.Desc, []string{s.Fn, ownerName(s.Owner) + "." + s.Field}, sites, viol)
}

// ---------------------------------------------------------------------------
// whocalls: callers of callee are exactly `allowed` (by enclosing named function).

func ruleWhoCalls(c *Ctx, r *Report, clause string, calleePred func(string) bool, calleeDesc string, allowed []string, min int, desc string) {
	w := c.W
	got := map[string][]string{}
	weight := map[string]int{}
	for _, call := range w.callersOf(calleePred) {
		fn := fnShort(call.Parent())
		got[fn] = append(got[fn], w.pos(call.Pos()))
		weight[fn] += w.siteWeight(call) // a call in a new helper stands for one per call of the helper
	}
	allowedSet := map[string]bool{}
	for _, a := range allowed {
		allowedSet[a] = true
	}
	var sites []string
	viol := ""
	n := 0
	fns := []string{}
	for fn := range got {
		fns = append(fns, fn)
	}
	sort.Strings(fns)
	for _, fn := range fns {
		sites = append(sites, got[fn]...)
		n += weight[fn]
		if !allHostsIn(allowedSet, fn) {
			viol = fmt.Sprintf("%s: %s is called from %s, which is not in the allowed set %v", got[fn][0], calleeDesc, fn, allowed)
		}
	}
	if n < min {
		viol = fmt.Sprintf("expected >= %d call sites of %s, found %d (rule would pass vacuously)", min, calleeDesc, n)
	}
	r.add(clause, "whocalls", calleeDesc, desc, append([]string{calleeDesc}, allowed...), sites, viol)
}

// ruleWhoStores: functions storing to a struct field are exactly allowed.
func ruleWhoStores(c *Ctx, r *Report, clause string, owner *types.Named, field string, allowed []string, min int, desc string) {
	w := c.W
	key := ownerName(owner) + "." + field
	fld := fieldOf(owner, field)
	if owner == nil || fld == nil {
		r.undecided(clause, "whowrites", key, desc, "field not found")
		return
	}
	allowedSet := map[string]bool{}
	for _, a := range allowed {
		allowedSet[a] = true
	}
	var sites []string
	viol := ""
	sts := w.fieldStores(fld)
	for _, st := range sts {
		fn := fnShort(st.Parent())
		p := w.pos(st.Pos())
		sites = append(sites, p)
		if !allHostsIn(allowedSet, fn) {
			viol = fmt.Sprintf("%s: field %s is written in %s, not in allowed writers %v", p, key, fn, allowed)
		}
	}
	if len(sts) < min {
		viol = fmt.Sprintf("expected >= %d stores to %s, found %d", min, key, len(sts))
	}
	r.add(clause, "whowrites", key, desc, append([]string{key}, allowed...), sites, viol)
}

// ---------------------------------------------------------------------------
// setagree

func ruleSetEqual(c *Ctx, r *Report, clause, key, desc string, nameA string, a []string, nameB string, b []string, sites []string) {
	onlyA, onlyB := setDiff(a, b)
	viol := ""
	if len(a) == 0 || len(b) == 0 {
		viol = fmt.Sprintf("empty set: %s=%v %s=%v (rule would pass vacuously)", nameA, a, nameB, b)
	} else if len(onlyA) > 0 || len(onlyB) > 0 {
		viol = fmt.Sprintf("%s and %s disagree: only in %s: %v; only in %s: %v", nameA, nameB, nameA, onlyA, nameB, onlyB)
	}
	o := r.add(clause, "setagree", key, desc, []string{nameA, nameB}, sites, viol)
	o.NonTrivial = true
}

func ruleSubset(c *Ctx, r *Report, clause, key, desc string, nameA string, a []string, nameB string, b []string, sites []string) {
	onlyA, _ := setDiff(a, b)
	viol := ""
	if len(a) == 0 || len(b) == 0 {
		viol = fmt.Sprintf("empty set: %s=%v %s=%v", nameA, a, nameB, b)
	} else if len(onlyA) > 0 {
		viol = fmt.Sprintf("%s ⊄ %s: %v missing from %s", nameA, nameB, onlyA, nameB)
	}
	o := r.add(clause, "setagree", key, desc, []string{nameA, nameB}, sites, viol)
	o.NonTrivial = true
}

// ---------------------------------------------------------------------------
// each-iteration wrapper

func ruleEach(c *Ctx, r *Report, clause, fnKey string, loopPred func(fi *FuncInfo) func(ast.Expr) bool, loopDesc string, target func(fi *FuncInfo) func(ast.Node) bool, targetDesc string, skips func(fi *FuncInfo) []skipSpec, errExitOK bool, desc string) {
	fi := need(c, r, clause, fnKey)
	if fi == nil {
		return
	}
	w := c.W
	key := fnKey + ":range(" + loopDesc + ")->" + targetDesc
	loops := w.rangeLoops(fi, loopPred(fi))
	if len(loops) == 0 {
		r.add(clause, "each-iteration", key, desc, []string{fnKey}, []string{w.pos(fi.Decl.Pos())}, fmt.Sprintf("no range loop over %s in %s", loopDesc, fnKey))
		return
	}
	var sites []string
	viol := ""
	for _, l := range loops {
		// the loop may have been moved into a new function: judge it where it is written
		owner := w.ownerOf(fi, l)
		g := w.cfgOf(owner)
		var sk []skipSpec
		if skips != nil {
			sk = skips(owner)
		}
		s, v := w.eachIteration(owner, g, l, target(owner), sk, errExitOK)
		sites = append(sites, s...)
		if v != "" {
			viol = v
		}
	}
	o := r.add(clause, "each-iteration", key, desc, []string{fnKey, loopDesc, targetDesc}, sites, viol)
	o.NonTrivial = true
}

// ---------------------------------------------------------------------------
// guard rule on SSA: every instruction selected by `sitePred` in fn is dominated by a
// branch fact whose condition slice satisfies condPred with polarity pol.

func ruleGuarded(c *Ctx, r *Report, clause, fnKey, key string, sitePred func(ssa.Instruction) bool, condPred func(a *sliceAtoms, cond ssa.Value) bool, pol bool, min int, desc string) {
	fi := need(c, r, clause, fnKey)
	if fi == nil {
		return
	}
	w := c.W
	var sites []string
	viol := ""
	n := 0
	allInstrs(fi.SSA, true, func(_ *ssa.Function, _ *ssa.BasicBlock, _ int, ins ssa.Instruction) {
		if !sitePred(ins) {
			return
		}
		n++
		sites = append(sites, w.pos(ins.Pos()))
		ok := false
		for _, f := range guardsOf(ins) {
			cnd, p := unwrapNot(f.Cond, f.Pol)
			if p == pol && condPred(sliceOf(cnd), cnd) {
				ok = true
				sites = append(sites, w.pos(instrPos(f.From)))
			}
		}
		if !ok {
			viol = fmt.Sprintf("%s: site is not guarded as required (%s)", w.pos(ins.Pos()), desc)
		}
	})
	if n < min {
		viol = fmt.Sprintf("expected >= %d guarded sites in %s, found %d", min, fnKey, n)
	}
	r.add(clause, "guardedby", fnKey+":"+key, desc, []string{fnKey}, sites, viol)
}

func instrPos(b *ssa.BasicBlock) token.Pos {
	for i := len(b.Instrs) - 1; i >= 0; i-- {
		if b.Instrs[i].Pos().IsValid() {
			return b.Instrs[i].Pos()
		}
	}
	return 0
}

// afterOK: instruction ins, somewhere in the region of top (top itself or a new function
// it calls), is only reachable after a call matching guard returned a good result: either
// within its own function, or - for a new function - at every call site leading to it
// from top. A new function that itself only succeeds after a good guard call stands for
// the guard.
func (w *World) afterOK(top *ssa.Function, ins ssa.Instruction, guard func(string) bool, resultIdx int, what string, depth int) ([]string, bool) {
	var sites []string
	f := ins.Parent()
	avoid := map[edge]bool{}
	for _, g := range callsInLocal(f, false, guard) {
		sites = append(sites, w.pos(g.Pos()))
		for _, e := range okEdgesOfCall(g, resultIdx) {
			avoid[e] = true
		}
	}
	for _, hc := range w.newHelperCalls(f) {
		h := w.newCallee(hc)
		if errResultIndex(h) >= 0 && w.summary(sumKey{namedOf(h), "ok", what, resultIdx}, func() bool { _, v := w.mustPassOK(h, guard, resultIdx, what); return v == "" }) {
			sites = append(sites, w.pos(hc.Pos()))
			for _, e := range okEdgesOfCall(hc, -1) {
				avoid[e] = true
			}
		}
	}
	if len(avoid) > 0 {
		if reach, _ := reachAvoiding(f, nil, avoid); !reach[ins.Block()] {
			return sites, true
		}
	}
	if namedOf(f) == namedOf(top) || !w.isNewFn(f) || depth > 6 {
		return sites, false
	}
	cs := w.callSitesOfNew(f)
	if len(cs) == 0 {
		return sites, false
	}
	for _, c := range cs {
		s2, ok := w.afterOK(top, c, guard, resultIdx, what, depth+1)
		sites = append(sites, s2...)
		if !ok {
			return sites, false
		}
	}
	return sites, true
}

// ruleTrueOnlyUnder: a predicate function answers true only where a branch fact satisfying
// `under` (with positive polarity) dominates the answer - the constant true behind such a
// test, or (for a returned expression) the test itself.
func ruleTrueOnlyUnder(c *Ctx, r *Report, clause, fnKey, key string, under func(a *sliceAtoms, cnd ssa.Value) bool, desc string) {
	fi := need(c, r, clause, fnKey)
	if fi == nil {
		return
	}
	w := c.W
	viol := ""
	var sites []string
	nTrue := 0
	var answer func(v ssa.Value, b *ssa.BasicBlock, pos string, depth int)
	answer = func(v ssa.Value, b *ssa.BasicBlock, pos string, depth int) {
		switch x := v.(type) {
		case *ssa.Const:
			if !isBoolConst(x, true) {
				return
			}
			nTrue++
			for _, f := range dominatingFacts(b) {
				cnd, pol := unwrapNot(f.Cond, f.Pol)
				if pol && under(sliceOf(cnd), cnd) {
					return
				}
			}
			viol = fmt.Sprintf("%s: %s answers true on a path where it has not established that %s", pos, fnKey, desc)
		case *ssa.Phi:
			if depth > 6 {
				return
			}
			for i, e := range x.Edges {
				answer(e, x.Block().Preds[i], pos, depth+1)
			}
		default:
			cnd, pol := unwrapNot(v, true)
			if pol && under(sliceOf(cnd), cnd) {
				nTrue++
				return
			}
			// a computed answer: some operand must carry the required test
			if under(sliceOf(v), v) {
				nTrue++
				return
			}
			viol = fmt.Sprintf("%s: %s returns an answer that does not rest on %s", pos, fnKey, desc)
		}
	}
	for _, ex := range exitsOf(fi.SSA) {
		if ex.Ret == nil || len(ex.Ret.Results) == 0 {
			continue
		}
		if bt, ok := ex.Ret.Results[0].Type().Underlying().(*types.Basic); !ok || bt.Kind() != types.Bool {
			continue
		}
		sites = append(sites, w.pos(retPos(ex)))
		answer(unspill(ex.Ret.Results[0], ex.Block), ex.Block, w.pos(retPos(ex)), 0)
	}
	if nTrue == 0 && viol == "" {
		viol = fnKey + " never answers true"
	}
	r.add(clause, "guardedby", fnKey+":"+key, fnKey+" answers true only when "+desc, []string{fnKey}, sites, viol)
}

// ruleWhoReads: a struct field is read (a FieldAddr that is not only stored to, or a Field)
// only in functions of the allowed packages: what other code computes cannot depend on it.
func ruleWhoReads(c *Ctx, r *Report, clause string, owner *types.Named, field string, allowedPkgs []string, min int, desc string) {
	w := c.W
	key := ownerName(owner) + "." + field
	fld := fieldOf(owner, field)
	if owner == nil || fld == nil {
		r.undecided(clause, "whoreads", key, desc, "field not found")
		return
	}
	var sites []string
	viol := ""
	n := 0
	for _, fn := range w.SSAFuncs {
		for _, b := range fn.Blocks {
			for _, ins := range b.Instrs {
				read := false
				switch x := ins.(type) {
				case *ssa.FieldAddr:
					if structFieldVar(x.X.Type(), x.Field) != fld {
						continue
					}
					if refs := x.Referrers(); refs != nil {
						for _, rf := range *refs {
							if st, ok := rf.(*ssa.Store); ok && st.Addr == ssa.Value(x) {
								continue
							}
							read = true
						}
					}
				case *ssa.Field:
					read = structFieldVar(x.X.Type(), x.Field) == fld
				}
				if !read {
					continue
				}
				n++
				host := fnShort(fn)
				rel := strings.TrimLeft(host, "(*")
				ok := false
				for _, p := range allowedPkgs {
					if strings.HasPrefix(rel, p+".") || strings.HasPrefix(rel, p+"/") {
						ok = true
					}
				}
				p := w.pos(ins.Pos())
				sites = append(sites, p)
				if !ok {
					viol = fmt.Sprintf("%s: %s is read in %s, outside %v: %s", p, key, host, allowedPkgs, desc)
				}
			}
		}
	}
	if n < min {
		viol = fmt.Sprintf("expected >= %d reads of %s, found %d (rule would pass vacuously)", min, key, n)
	}
	r.add(clause, "whoreads", key, desc, append([]string{key}, allowedPkgs...), sites, viol)
}
