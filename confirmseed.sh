#!/bin/sh
# usage: confirmseed.sh <agent-out-dir>/mN <seed-name>   e.g. confirmseed.sh /tmp/seed/C01-out/m1 C01-m1
# Confirms, in the scratch worktree /var/tmp/probe (never /repo): baseline demo passes, mutant compiles,
# demo fails with mutant, pinned suite still passes (only the 2 always-failing packages fail). On success
# stores the change under /verif/seeded/<seed-name>/.
set -u
# serialise: only one confirmation may use the scratch worktree at a time
exec 9>/var/tmp/confirm.lock; flock 9
src="$1"; name="$2"
export GOFLAGS=-mod=mod GOPROXY=off GOSUMDB=off GOTOOLCHAIN=local PATH=/opt/veriftools/go1.26.8/bin:$PATH; unset GOWORK
W=/var/tmp/confirm
cd $W || exit 2
git checkout -q -- . ; rm -rf seeddemo
demo_cmd=$(python3 -c "import json;print(json.load(open('$src/meta.json'))['demo_cmd'])")
cp -r "$src/demo/." $W/
echo "[1] baseline demo: $demo_cmd"
if ( eval "$demo_cmd" ) >/tmp/confirm_base.log 2>&1; then echo "    baseline PASS"; else echo "    baseline FAIL -> reject"; tail -5 /tmp/confirm_base.log; rm -rf seeddemo; exit 1; fi
git apply "$src/patch.diff" || { echo "patch does not apply"; rm -rf seeddemo; exit 1; }
echo "[2] build"; go build ./... || { echo "    does not compile -> reject"; git checkout -q -- .; rm -rf seeddemo; exit 1; }
echo "[3] demo with mutant"
if ( eval "$demo_cmd" ) >/tmp/confirm_mut.log 2>&1; then echo "    demo PASSES with mutant -> reject"; git checkout -q -- .; rm -rf seeddemo; exit 1; else echo "    demo FAILS with mutant (good)"; fi
mv seeddemo /var/tmp/seeddemo.$$ 
echo "[4] pinned suite with mutant"
if grep -q "generator/templates\|generator/routes" "$src/patch.diff"; then
  # the e2e suite compiles the committed routers and regenerates them while running: run it once first so
  # that the full run below is built from routers generated WITH the change
  go test -vet=off -count=1 -timeout 25m ./e2e/... >/dev/null 2>&1
fi
fails=$(go test -vet=off -count=1 -timeout 25m ./... 2>&1 | grep -E "^FAIL\s" | awk '{print $2}' | sort | tr '\n' ' ')
echo "    failing packages: $fails"
git checkout -q -- . ; rm -rf /var/tmp/seeddemo.$$
expected="github.com/gopher-fleece/gleece/v2/test/units/gast/versioning github.com/gopher-fleece/gleece/v2/test/visitors/route "
if [ "$fails" != "$expected" ]; then echo "    suite differs from baseline -> reject"; exit 1; fi
mkdir -p /verif/seeded/$name && cp "$src/patch.diff" /verif/seeded/$name/ && rm -rf /verif/seeded/$name/demo && cp -r "$src/demo" /verif/seeded/$name/demo
python3 - "$src/meta.json" "/verif/seeded/$name/meta.json" <<'PY'
import json,sys
m=json.load(open(sys.argv[1]))
m['confirmed_by_me']={"worktree":"/var/tmp/confirm (git worktree of /repo HEAD incl. fix commits)","steps":["baseline demo passes","git apply patch.diff; go build ./... ok","demo fails with mutant","go test -vet=off -count=1 ./... : only test/units/gast/versioning and test/visitors/route fail (as on the unchanged tree)","reverted"]}
json.dump(m,open(sys.argv[2],'w'),indent=1)
PY
echo "CONFIRMED $name"
