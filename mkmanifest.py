#!/usr/bin/env python3
"""Regenerates MANIFEST.json from the table below (kept next to the checks so that the
manifest is always schema-valid and in step with what the checker registers)."""
import json, os

HERE = os.path.dirname(os.path.abspath(__file__))

BASELINE_OFF = ("export PATH=/opt/veriftools/go1.26.8/bin:$PATH GOFLAGS=-mod=mod GOPROXY=off GOSUMDB=off GOTOOLCHAIN=local; "
                "cd /repo && go build ./... && go test -vet=off -count=1 -timeout 25m ./...")

claims = json.load(open(os.path.join(HERE, "claims.json")))

checks = []
for cid in sorted(claims["claimed"]):
    c = claims["claimed"][cid]
    checks.append({
        "property_id": cid,
        "quick_cmd": "./run.sh quick %s" % cid,
        "thorough_cmd": "./run.sh thorough %s" % cid,
        "evidence_file": "/verif/evidence/%s.json" % cid,
        "replay_cmd_template": "./run.sh replay {path}",
        "engine": "gleecheck",
        "level_claimed": {
            "category": "other",
            "text": c["text"],
            "design_ref": "DESIGN.md §4 " + cid,
        },
        "level_note": c["note"],
        "technique": c["technique"],
    })

manifest = {
    "version": 1,
    "setup_cmd": "./run.sh setup",
    "hooks": {
        "guard": "verif",
        "enable": "none needed: the checks are static analyses of /repo's working tree (no instrumentation, no build tag)",
        "baseline_off_cmd": BASELINE_OFF,
        "source_commits": [],
        "add_only": True,
    },
    "engines": [{
        "name": "gleecheck",
        "path": "/verif/checker",
        "serves_properties": sorted(claims["claimed"]),
        "kind_free_text": "repository-specific static analyser: go/packages typed ASTs + go/ssa (dominance, slices, must-pass-through) + go/cfg (per-iteration path rules) over gleece, and a Handlebars front-end (raymond parser) that type-checks the five template sets against routes.RoutesContext and checks ordering/sibling agreement; canaries per rule kind run before every check",
    }],
    "checks": checks,
    "notes": claims.get("notes", ""),
    "not_applicable": [{"property_id": k, "reason": v} for k, v in sorted(claims["not_applicable"].items())],
}
json.dump(manifest, open(os.path.join(HERE, "MANIFEST.json"), "w"), indent=1)
print("MANIFEST.json written: %d checks, %d not_applicable" % (len(checks), len(manifest["not_applicable"])))
